#!/bin/sh
# seedsweep.sh "1 2 3" [props...] : quick tier of every (or the named) check
# under several VERIF_SEED values; prints one line per run.  Evidence files
# are not rewritten.
cd "$(dirname "$0")/.." || exit 3
seeds="$1"; shift
props="$*"
[ -n "$props" ] || props=$(python3 -c "import json;print(' '.join(c['property_id'] for c in json.load(open('MANIFEST.json'))['checks']))")
for s in $seeds; do
  for p in $props; do
    out=$(VERIF_NO_EVIDENCE=1 VERIF_SEED=$s ./check $p --tier ${VERIF_TIER:-quick} 2>&1)
    rc=$?
    echo "seed=$s $p rc=$rc $(echo "$out" | grep '^OK\|^FAIL\|HARNESS' | head -2 | tr '\n' ' ')"
    [ $rc -eq 0 ] || echo "$out" | grep -A1 'class=' | head -8
  done
done
