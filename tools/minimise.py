#!/usr/bin/env python3
"""minimise.py PROP [key=value ...] : pick the replay files under replays/
whose signature matches, minimise one of them with a larger budget and print
it readably."""
import glob
import importlib
import json
import os
import sys

VERIF = os.path.dirname(os.path.dirname(os.path.abspath(__file__)))
sys.path.insert(0, VERIF)
os.environ.setdefault('PYTHONHASHSEED', '0')
from sim import core                                        # noqa: E402
from sim.canon import dec_table                             # noqa: E402


def main():
    prop = sys.argv[1]
    want = dict(a.split('=', 1) for a in sys.argv[2:] if '=' in a)
    budget = float(os.environ.get('VERIF_SHRINK_S', 30))
    mod = importlib.import_module('checks.' + prop.lower())
    for f in sorted(glob.glob(os.path.join(VERIF, 'replays', prop + '-*.json'))):
        r = json.load(open(f))
        sig = r['sig']
        if all(str(sig.get(k)) == v for k, v in want.items()):
            break
    else:
        print('no replay matches')
        return 1
    out = core.run_guarded(mod, r['case'], allowance=60)
    if out['status'] != 'violation':
        print('does not reproduce', out['status'])
        return 1
    small, so, n = core.minimise(mod, r['case'], out, budget_s=budget)
    p = core.write_replay(prop, r.get('seed', 0), small, so, tag='-min')
    print(p, 'accepted', n)
    print(so['vclass'], json.dumps(so['sig']))
    print(so['msg'][:1500])
    for k, v in small.items():
        if k == 'tables':
            for t in v:
                print('  table', dec_table(t))
        else:
            print(' ', k, '=', v)
    return 0


if __name__ == '__main__':
    sys.exit(main())
