#!/usr/bin/env python3
"""Regenerates MANIFEST.json from the table below (kept here so the file
stays consistent as checks are added)."""
import json
import os

VERIF = os.path.dirname(os.path.dirname(os.path.abspath(__file__)))

CLAIMED = {
    'C01': dict(
        level='exploration', ref='§3 C01',
        technique='deterministic simulation: seeded iterator scheduler over '
                  'the view catalogue, differential oracle against a solo '
                  'pass of a freshly built view',
        text="Seeded search over schedules of next() calls on 2..3 live iterators (plus abandonment, close, gc, a dropped view, petl's own len/look/header consumers as hidden iterators, and a fresh pass) for every view constructor in the catalogue (145 recipes, 400+ argument variants), stacked up to three deep or forked into sibling views over one base, on small random sources given as lists or tuples, bare or wrapped, read from the simulated store, MemorySource or real files, under a perturbed petl.config; every delivered row is checked against a solo pass of an identical fresh view after every step. Sampling, not enumeration: a clean batch is evidence, not proof.",
        note='Trusted: CPython generator semantics; the solo pass of the real '
             'code as the reference (a recipe whose solo pass raises is '
             'inapplicable); SimTable/SimStore stubs stand for user row and '
             'byte sources. Optional-dependency back ends are not importable '
             'here and are not covered.'),
    'C02': dict(
        level='exploration', ref='§3 C02',
        technique='deterministic simulation: metered row/byte sources, '
                  'consumer tasks under an interleaving schedule, '
                  'differential run on two source lengths, poisoned tails',
        text='Every streaming recipe (and stacks of them), the extractors (several argument forms) and the pass-through views incl. tee are driven by 1..3 consumers (next(), islice, head, look, see, _repr_html_, header, list/len/tuple on head views, ...) on metered sources of two lengths under a perturbed petl.config (incl. DEBUG logging with a formatting handler); the check asserts zero data-row pulls at construction for all recipes (a declared budget where a constructor consults the header of a view whose header costs rows), pulls <= k + declared look-ahead after every step, identical cost on both lengths, nothing pulled when an iterator is released. Sampled.',
        note='Trusted: the declared look-ahead constants in '
             'sim/catalogue.py; attribution of pulls to the task being '
             'stepped. Materialising utilities (facet, lookup*, counters) '
             'are outside the property.'),
    'C03': dict(
        level='exploration', ref='§3 C03',
        technique='deterministic simulation: iterator scheduler on aliasing '
                  'sources with a temporal non-mutation invariant checked '
                  'after every step',
        text='C01-style schedules (partial and full iteration, several '
             'iterators) on sources that hand out their stored mutable rows '
             '(incl. list/dict cells); after construction and after every '
             'step the deep snapshots of sources and mutable arguments and '
             'the canonical form of every delivered row are re-compared; '
             'consumers such as lookup/columns/look/tocsv run at the end. '
             'Sampled.',
        note='Trusted: canonical snapshots (type name + repr per cell); the '
             'harness itself never mutates a row.'),
    'C05': dict(
        level='exploration', ref='§3 C05',
        technique='deterministic simulation: external sort on real temp '
                  'files under randomised knobs and pass histories with '
                  'source-failure injection; oracle = independent stable '
                  'reference sort',
        text="sort and mergesort on simulated sources with buffersize at the boundaries (1,2,3,n-1,n,n+1,n+2,None; a fifth of the cases sweep EVERY buffersize 1..n+2 x cache on/off), cache on/off, tempdir, global default, reverse, all key forms, mergesort header=/missing=/presorted; 1..3 interleaved/abandoned passes, optional source failure (any exception class, incl. a BaseException-class abort) for one pass, then two fresh passes; every delivered row compared with a reference sort written independently of petl, and with petl's own sort(cat(...)). Sampled.",
        note='Trusted: sim/models.py (cross-checked against petl.Comparable '
             'on all pairs of the value pool at every run); the conservative '
             'value domain (no NaN, no list-vs-tuple mixes). Two recorded '
             'findings for mergesort are listed in known_findings.json.'),
    'C18': dict(
        level='exploration', ref='§3 C18',
        technique='deterministic simulation with fault injection: histories '
                  'of iterator/view lifetime events, source failures and '
                  'ENOSPC on a private real temp directory; directory-empty '
                  'and completeness invariants',
        text="Histories of create/advance/abandon/close/drop-view/gc (and petl's own len/look/header) on every temp-file-creating view (sort, all sort-backed operators with small buffers, fromdicts on a generator), with a source failing at a chosen row (any exception class) or the disk filling up after a byte budget; a fifth of the cases enumerate EVERY abandonment point x release order and a failure at EVERY source row as separate short histories; at quiescence the sandbox must be empty, surviving iterators and later passes complete, no exception in a finaliser, and a fresh pass after the faults stop complete. Sampled.",
        note='Trusted: CPython reference counting + gc.collect(); POSIX '
             'unlink semantics; harness reference hygiene (histories run in '
             'their own frame, exceptions never stored).'),
    'C07': dict(
        level='exploration', ref='§3 C07',
        technique='deterministic simulation: hash joins under iterator '
                  'schedules and pass histories (cached build side on/off) '
                  'against a nested-loop reference in streamed-side order '
                  'and against the sort-merge joins; lookups against a dict '
                  'model',
        text='Each hash join view is stepped by 2..3 iterators (abandoned, interleaved, a source failure part-way through the build or the probe, then two fresh passes, cache on/off, then an edit of the build side and another pass: cache=False must reflect it, cache=True must not re-read) and every delivered row is compared with a nested-loop reference in streamed-side order; header and multiset are compared with the corresponding merge join on the same inputs (None, mixed-type, compound and one-element-list keys, lkey != rkey, empty sides, ragged rows, missing/prefix arguments). The six lookup functions are compared with a dict model incl. strict duplicates, None values, and a user dictionary (dict, OrderedDict, shelf-like copying mapping) reused across two calls. Sampled.',
        note='Claimed for the cache / pass-history / emission-order clauses; '
             'the input space is sampled (without the pass dimension this '
             'would be a differential test, said plainly). Trusted: the '
             'nested-loop and dict models in checks/c07.py.'),
    'C11': dict(
        level='exploration', ref='§3 C11',
        technique='deterministic simulation: knob sweep (differential '
                  'against the default call) + history machine of (edit '
                  'source, iterate) steps against a cache model with '
                  'metered sources',
        text='42 sort-backed operator forms. Knob machine: buffersize 1..n+1, tempdir, cache=False, global sort_buffersize, presorted=True on inputs presorted by petl.sort (ragged where every row has its key cells, squared up otherwise), pairs of knobs, two passes each, compared with the default call (header, rows, order). History machine: passes (full, abandoned, or failing through an injected source failure; over either output of two-output operators) interleaved with source edits, judged by a three-case cache model; pulls from the metered sources are part of the judgement. Sampled.',
        note='Trusted: the cache model (DESIGN.md C11); edits happen only '
             'between passes; configurations without a sort are outside the '
             'cache clause.'),
    'C15': dict(
        level='exploration', ref='§3 C15',
        technique='deterministic simulation: history machine of to*/append*/'
                  'from* on a simulated byte store (visibility on flush/'
                  'close, fragmented reads, handle accounting) and real '
                  'gzip/bz2/file targets, against a content model',
        text='Histories of 1..4 TO/APPEND operations per target, read back '
             'through a fresh handle after every write, for csv/tsv/pickle/'
             'json/jsonlines/jsonarrays/text x 7 target kinds x encodings x '
             'dialect arguments x header flags, with cells rich in '
             'delimiter/quote/CR/LF/NUL/non-ASCII/astral characters; oracle: '
             'stdlib csv on an in-memory text buffer (and the identity for '
             'text cells), exact for pickle, JSON types for json; '
             'to+append bytes equal to(cat); no handle left open. Sampled.',
        note='Trusted: stdlib csv/json/pickle/gzip/bz2 and the OS file '
             'system; cases where the stdlib reference raises are '
             'inapplicable. Two recorded findings (BOM-carrying encodings on '
             'compressed targets) are listed in known_findings.json.'),
    'C16': dict(
        level='exploration', ref='§3 C16',
        technique='deterministic simulation: tee sinks on the simulated '
                  'store compared byte-for-byte with to*, progress/clock '
                  'under a simulated clock with stalls and jumps, cache(n) '
                  'under iterator schedules',
        text='tee{csv,tsv,pickle,text,html} with drawn arguments under a perturbed petl.config: rows yielded equal the wrapped rows and the sink equals what the matching to* writes, after full passes, after abandoned passes followed by a full one, and after a second pass, with no handle left open and no exception; progress/log_progress/clock under a simulated clock (stall, forward/backward jump, coarse resolution) for all batch sizes around n and prefixes containing % or {}; cache(n)/wrap under schedules of 2..3 iterators. Sampled.',
        note='Trusted: the to* writers as the byte reference (a to* call '
             'that raises makes the case inapplicable); SimClock replaces '
             'the time module inside petl.util.timing only.'),
    'C17': dict(
        level='fault_enumeration', ref='§3 C17',
        technique='deterministic simulation with fault enumeration: source '
                  'failure injected at every row index x handle kind x '
                  'commit flag on real sqlite3 file databases; oracle = '
                  'table model read through a fresh connection',
        text="For every sampled scenario (table incl. header-only and 1000+ row loads, prior contents, history prefix, source given raw, through a pipeline, or as another table of the same database read with fromdb on the caller's connection; schema argument incl. an attached database holding a same-named table) and every combination of {todb, appenddb} x {file name, connection, cursor, cursor factory} x commit flag (thorough: all 16 per scenario) the failure is injected at every index 0..n+1 (cycling through exception classes incl. TypeError and a BaseException-class abort) and as a malformed row at every data row, each on a fresh database file; a fresh connection must see exactly the model contents after the call, after caller commit/rollback, and after a follow-up load; fromdb through every handle kind must return what was written.",
        note='Trusted: sqlite3 with default transactional connections; '
             'autocommit connections, SQLAlchemy handles and create=True '
             'are out of scope (not importable / not transactional).'),
    'C19': dict(
        level='fault_enumeration', ref='§3 C19',
        technique='deterministic simulation with fault enumeration: '
                  'failures injected into user callbacks at every subset of '
                  'row (and field) positions x 3 policies x argument-vs-'
                  'config; oracle = policy model',
        text='16 operator forms (convert in all its argument forms, convertall, convertnumbers, format(all), interpolate(all), fieldmap, rowmap incl. lazily failing mappers, rowmapmany with partial output) on tables of n <= 6 rows; inside each scenario every subset of failing positions x {False, True, inline} x {argument, petl.config.failonerror at construction} is run, with failures of six exception classes (plain, StopIteration, KeyError, IndexError, TypeError, AttributeError) and one or two interleaved consumers, after a decoy view of the same form with another errorvalue; expected rows, the surfaced exception object and its position come from a small policy model.',
        note='Trusted: the policy model in checks/c19.py; injected '
             'exceptions are identified by object identity, natural '
             'failures by type.'),
}

NOT_APPLICABLE = {
    'C04': 'pure stateless comparison relation on values; no schedule, time, '
           'I/O, history or fault it could depend on',
    'C06': 'relational exactness of merge joins is a function of the two '
           'input tables; its stateful aspects are decided under '
           'C01/C07/C11/C18',
    'C08': 'multiset algebra of set operations is a function of the two '
           'input tables',
    'C09': 'group conservation is a function of the input table and '
           'aggregation spec; the buffersize/presorted dimension is C11',
    'C10': 'partition by key multiplicity is a function of the input table '
           'and key',
    'C12': 'frame conditions of row/field transforms are functions of the '
           'input table and arguments',
    'C13': 'selection/complement exactness is a function of the input table, '
           'predicate and slice arguments',
    'C14': 'reshape round-trip identities are functions of the input table',
    'C20': 'behaviour on header-only inputs is a per-operator function of one '
           'input shape; enumerating operators x positions is input '
           'enumeration, not simulation',
}

PENDING = {}


def main():
    props = [json.loads(l)['id'] for l in
             open(os.path.join(VERIF, 'properties.jsonl'))]
    checks = []
    built = [pid for pid in CLAIMED if os.path.exists(
        os.path.join(VERIF, 'checks', pid.lower() + '.py'))]
    for pid in props:
        if pid not in built:
            continue
        c = CLAIMED[pid]
        checks.append({
            'property_id': pid,
            'quick_cmd': './check %s --tier quick' % pid,
            'thorough_cmd': './check %s --tier thorough' % pid,
            'evidence_file': 'evidence/%s.json' % pid,
            'replay_cmd_template': './check %s --replay {path}' % pid,
            'engine': 'petl-sim',
            'level_claimed': {'category': c['level'], 'text': c['text'],
                              'design_ref': 'DESIGN.md ' + c['ref']},
            'level_note': c['note'],
            'technique': c['technique'],
        })
    na = []
    for pid in props:
        if pid in built:
            continue
        if pid in NOT_APPLICABLE:
            na.append({'property_id': pid, 'reason': NOT_APPLICABLE[pid]})
        else:
            na.append({'property_id': pid,
                       'reason': PENDING.get(pid, 'simulation check designed '
                                             '(DESIGN.md) but not built yet; '
                                             'not claimed')})
    man = {
        'version': 1,
        'setup_cmd': '/venv/bin/python -m compileall -q sim checks selftest '
                     'tools && ./check --help >/dev/null',
        'hooks': {
            'guard': 'PETL_VERIF_SIM',
            'enable': 'no source hooks: every seam is an argument, a module '
                      'attribute or a directory (DESIGN.md §1); checks import '
                      'petl from /repo (or VERIF_REPO) as it is',
            'baseline_off_cmd': 'cd /repo && /venv/bin/python -m pytest -ra '
                                '-q -p no:cacheprovider --timeout=900 '
                                '--continue-on-collection-errors',
            'source_commits': [],
            'add_only': True,
        },
        'engines': [{
            'name': 'petl-sim', 'path': 'sim/',
            'serves_properties': sorted(built),
            'kind_free_text': 'deterministic simulation with fault '
                              'injection: seeded scheduler of iterator '
                              'steps, simulated row/byte/clock devices, real '
                              'temp files and sqlite3 in a private sandbox, '
                              'reference models, ddmin minimiser, replay '
                              'files',
        }],
        'checks': checks,
        'not_applicable': na,
        'notes': 'All checks honour VERIF_SEED, VERIF_TIER, VERIF_REPO, '
                 'VERIF_WORKERS. Exit 0 held / 1 VIOLATION / 3 harness '
                 'error. known_findings.json lists recorded and fixed '
                 'defects.',
    }
    with open(os.path.join(VERIF, 'MANIFEST.json'), 'w') as f:
        json.dump(man, f, indent=1)
        f.write('\n')


if __name__ == '__main__':
    main()
