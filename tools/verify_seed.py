#!/usr/bin/env python3
"""verify_seed.py PROP N [--checks C01,C05] : confirm a sub-agent's seeded
change independently (tests pass with it, demo fails with it and passes
without it) in a scratch worktree, file it under seeded/<PROP>-<N>/, then run
the named checks (default: PROP) against the changed tree and record the
verdicts in meta.json.  Nothing is ever applied to /repo."""
import json
import os
import shutil
import subprocess
import sys

VERIF = os.path.dirname(os.path.dirname(os.path.abspath(__file__)))
WT = '/tmp/wt-verify'


SCRATCH = '/tmp/verify-seed-tmp'     # what the suite and the demos leave behind


def sh(cmd, **kw):
    if 'env' not in kw:
        os.makedirs(SCRATCH, exist_ok=True)
        kw['env'] = dict(os.environ, TMPDIR=SCRATCH)
    try:
        return subprocess.run(cmd, shell=True, stdout=subprocess.PIPE,
                              stderr=subprocess.STDOUT, text=True, **kw)
    finally:
        shutil.rmtree(SCRATCH, ignore_errors=True)


def main():
    tag, n = sys.argv[1], sys.argv[2]      # e.g. C18 or C18b (second round)
    prop = tag[:3]
    checks = [prop]
    if '--checks' in sys.argv:
        checks = sys.argv[sys.argv.index('--checks') + 1].split(',')
    src = '/tmp/seed-%s/%s' % (tag, n)
    if '--src' in sys.argv:
        src = sys.argv[sys.argv.index('--src') + 1]
    dst = os.path.join(VERIF, 'seeded', '%s-%s' % (tag, n))
    if not os.path.isdir(WT):
        r = sh('git -C /repo worktree add -q --detach %s HEAD && cp '
               '/repo/petl/version.py %s/petl/version.py' % (WT, WT))
        assert r.returncode == 0, r.stdout
    sh('git -C %s checkout -q --detach %s && git -C %s checkout -- . && git '
       '-C %s clean -fdq -e petl/version.py'
       % (WT, sh('git -C /repo rev-parse HEAD').stdout.strip(), WT, WT))
    meta = {'property': prop, 'source': 'sub-agent given only the property '
            'text and a scratch worktree', 'repo_commit':
            sh('git -C /repo rev-parse --short HEAD').stdout.strip()}
    demo = 'cd %s && /venv/bin/python %s/demo.py' % (WT, src)
    r0 = sh(demo)
    meta['demo_without_change'] = {'exit': r0.returncode,
                                   'tail': r0.stdout[-300:]}
    ra = sh('git -C %s apply %s/patch.diff' % (WT, src))
    assert ra.returncode == 0, ra.stdout
    rt = sh('cd %s && timeout 900 /venv/bin/python -m pytest -q -p '
            'no:cacheprovider 2>&1 | tail -2' % WT)
    meta['tests_with_change'] = rt.stdout.strip().splitlines()[-1]
    r1 = sh(demo)
    meta['demo_with_change'] = {'exit': r1.returncode,
                                'tail': r1.stdout[-600:]}
    ok = r0.returncode == 0 and r1.returncode != 0 and \
        '481 passed' in meta['tests_with_change']
    meta['confirmed'] = ok
    print('confirmed' if ok else 'NOT CONFIRMED', json.dumps(meta, indent=1))
    if not ok:
        sh('git -C %s checkout -- .' % WT)
        return 1
    os.makedirs(dst, exist_ok=True)
    for f in ('patch.diff', 'demo.py', 'notes.txt'):
        if os.path.exists(os.path.join(src, f)):
            shutil.copy(os.path.join(src, f), os.path.join(dst, f))
    verdicts = {}
    for c in checks:
        env = dict(os.environ, VERIF_REPO=WT, VERIF_NO_EVIDENCE='1',
                   VERIF_SHRINK_S='8')
        r = sh('%s/check %s --tier quick' % (VERIF, c), env=env)
        lines = [l for l in r.stdout.splitlines()
                 if l.startswith(('VIOLATION', '  class=', 'OK', 'FAIL',
                                  'HARNESS'))]
        verdicts[c] = {'exit': r.returncode, 'lines': lines[:4]}
        print(c, r.returncode, '\n'.join(lines[:4]))
    meta['checks_quick'] = verdicts
    meta['detected_by'] = [c for c, v in verdicts.items() if v['exit'] == 1]
    old = {}
    mp = os.path.join(dst, 'meta.json')
    if os.path.exists(mp):
        old = json.load(open(mp))
    for k in ('needs', 'what', 'history'):
        if k in old:
            meta[k] = old[k]
    json.dump(meta, open(mp, 'w'), indent=1)
    sh('git -C %s checkout -- .' % WT)
    return 0


if __name__ == '__main__':
    sys.exit(main())
