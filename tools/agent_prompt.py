#!/usr/bin/env python3
"""Prints the brief given to a mutation sub-agent for one property: only the
property text and the path of its scratch worktree (nothing from /verif)."""
import json
import sys

pid = sys.argv[1]
wt = sys.argv[2]
for l in open('/verif/properties.jsonl'):
    p = json.loads(l)
    if p['id'] == pid:
        break
print('''You are helping to evaluate a verification effort for the Python library petl (a lazy ETL library of table views). You have your own scratch git worktree of the petl repository at %(wt)s (a detached checkout; work ONLY inside that directory; never touch /repo or /verif, and do not read anything under /verif). Python is /venv/bin/python; run things from inside the worktree so that `import petl` picks up the worktree copy (check petl.__file__). There is no network.

Here is a semantic property that petl is supposed to satisfy:

TITLE: %(title)s

STATEMENT: %(statement)s

QUANTIFIER: %(q)s

WHY THE EXISTING TESTS CANNOT SETTLE IT: %(why)s

CODE THE PROPERTY IS ANCHORED IN: %(files)s

YOUR TASK: produce TWO different, independent, realistic changes (bugs) to the petl source code in the worktree, each of which BREAKS this property while the code still imports fine and the existing test suite still passes completely. Think of plausible maintainer mistakes: an optimisation, a refactoring slip, an off-by-one, a state shared where it should be private, a wrong boundary, a reordered statement. The changes must need something specific to manifest -- a particular interleaving of iterators, a fault or failure at a particular point, a multi-step sequence of operations, an unusual input or argument combination, or two cooperating sites that each look fine alone -- NOT something ordinary use would expose at once. The two changes should be in different functions/mechanisms and of a different nature. Each change must be small (a few lines) and touch only files under petl/ (not petl/test).

For each change N in {1, 2}:
 1. Start from a clean worktree (git -C %(wt)s checkout -- . ; git -C %(wt)s status).
 2. Make the change, then run the full test suite from the worktree root: `cd %(wt)s && /venv/bin/python -m pytest -q -p no:cacheprovider -x 2>&1 | tail -5`. It must report 481 passed (17 skipped). If any test fails, change your approach.
 3. Write a small standalone demonstration program /tmp/seed-%(pid)s/N/demo.py that uses only petl's public API (run with `cd %(wt)s && /venv/bin/python /tmp/seed-%(pid)s/N/demo.py`), which exits 0 and prints PASS on the unmodified code and exits 1 and prints FAIL (with a short explanation of the property violation observed) on the modified code. Verify both directions yourself: save the diff to a file, `git checkout -- .`, run the demo, `git apply` the diff, run it again. Do NOT use `git stash` (the stash is shared between all worktrees of this repository and other people are working in parallel).
 4. Save the change as /tmp/seed-%(pid)s/N/patch.diff (output of `git -C %(wt)s diff`), and write /tmp/seed-%(pid)s/N/notes.txt: what the change is, why it breaks the property, what exactly is needed for it to manifest, and the commands you ran with their results.
 5. Restore the worktree to a clean state (git checkout -- .) before the next change and at the end.

Finish by replying with a short summary of the two changes (files, what is needed to trigger each) and confirming that the tests passed with each change applied and that each demo fails with / passes without the change.''' % dict(
    wt=wt, pid=pid, title=p['title'], statement=p['statement'],
    q=p['quantifier']['text'], why=p['why_tests_cant'],
    files=', '.join(p['anchors']['files'])))
