#!/usr/bin/env python3
"""Fills the SEEDTABLE block of DESIGN.md §8.2 from seeded/*/meta.json."""
import glob
import json
import os
import re

VERIF = os.path.dirname(os.path.dirname(os.path.abspath(__file__)))
rows = []
for d in sorted(glob.glob(os.path.join(VERIF, 'seeded', '*'))):
    mp = os.path.join(d, 'meta.json')
    if not os.path.exists(mp):
        continue
    m = json.load(open(mp))
    name = os.path.basename(d)
    first = m.get('history', '')
    first = 'missed, then caught' if first.lower().startswith(('missed', 'the first run ended')) else 'caught'
    now = ', '.join(m.get('detected_by', [])) or 'NOT CAUGHT'
    if m.get('superseded'):
        now = 'no longer a defect (superseded by a repair, see meta.json)'
    if m.get('out_of_scope'):
        first = 'not caught'
        now = 'none (judged outside the property)'
    if m.get('still_missed'):
        first = 'missed'
        now = 'none yet (in scope; what the check lacks is in meta.json)'
    rows.append('| %s | %s | %s | %s | %s |' % (
        name, m.get('what', '').replace('|', '/'),
        m.get('needs', '').replace('|', '/'), first, now))
p = os.path.join(VERIF, 'DESIGN.md')
s = open(p).read()
block = '\n'.join(rows)
if 'SEEDTABLE' in s:
    s = s.replace('SEEDTABLE', '<!-- seedtable -->\n' + block +
                  '\n<!-- /seedtable -->')
else:
    s = re.sub(r'<!-- seedtable -->.*?<!-- /seedtable -->',
               lambda _: '<!-- seedtable -->\n' + block +
               '\n<!-- /seedtable -->', s, flags=re.S)
missed = sum(1 for r in rows if '| missed, then caught |' in r)
oos = sum(1 for r in rows if '| not caught |' in r)
still = sum(1 for r in rows if '| missed |' in r)
summary = ('%d seeded changes have been confirmed so far (rounds of '
           'sub-agents, two changes each, per claimed property); %d were '
           'caught by the check as it stood when the change arrived, %d '
           'were missed and are caught since the check was strengthened, '
           '%d not caught because judged to fall outside '
           'the property (reason in the table), and %d in scope and still '
           'missed; the %d others are all '
           'caught by the current quick tier (`selftest/run_mutants.py`).'
           % (len(rows), len(rows) - missed - oos - still, missed, oos,
              still, len(rows) - oos - still))
s = re.sub(r'<!-- seedsummary -->.*?<!-- /seedsummary -->',
           lambda _: '<!-- seedsummary -->\n' + summary +
           '\n<!-- /seedsummary -->', s, flags=re.S)
open(p, 'w').write(s)
print(len(rows), 'rows;', missed, 'missed at first')
