#!/usr/bin/env python3
"""mkmutant.py NAME FILE  (reads OLD and NEW from two files given as
--old/--new or from stdin separated by a line '====')  ->
selftest/mutants/NAME.patch (a -p1 patch against the repo root)."""
import difflib
import os
import sys

name, rel = sys.argv[1], sys.argv[2]
old, new = sys.stdin.read().split('\n====\n')
new = new.rstrip('\n') + '\n' if new.endswith('\n\n') else new
path = os.path.join(os.environ.get('VERIF_REPO', '/repo'), rel)
src = open(path).read()
if old.endswith('\n') and not new.endswith('\n'):
    new += '\n'
assert src.count(old) == 1, 'old text occurs %d times' % src.count(old)
mut = src.replace(old, new)
diff = ''.join(difflib.unified_diff(src.splitlines(True), mut.splitlines(True),
                                    'a/' + rel, 'b/' + rel))
out = os.path.join(os.path.dirname(os.path.dirname(os.path.abspath(__file__))),
                   'selftest', 'mutants', name + '.patch')
open(out, 'w').write(diff)
print(out)
print(diff)
