#!/usr/bin/env python3
"""launch_wave.py SUFFIX : prepares worktrees /tmp/wt-<PROP><SUFFIX> and the
launch files /tmp/launch-<PROP>.txt for one more round of mutation
sub-agents.  The avoid lists are built from seeded/*/meta.json ('what'), so a
new round is told which ideas are taken (that is all it learns about earlier
rounds; nothing about the checks)."""
import glob
import json
import os
import subprocess
import sys

VERIF = os.path.dirname(os.path.dirname(os.path.abspath(__file__)))
suffix = sys.argv[1]
props = sys.argv[2:] or ['C01', 'C02', 'C03', 'C05', 'C07', 'C11', 'C15',
                         'C16', 'C17', 'C18', 'C19']
taken = {}
for f in sorted(glob.glob(os.path.join(VERIF, 'seeded', '*', 'meta.json'))):
    m = json.load(open(f))
    taken.setdefault(m['property'], []).append(m.get('what', ''))
for p in props:
    tag = p + suffix
    wt = '/tmp/wt-' + tag
    if not os.path.isdir(wt):
        subprocess.check_call('git -C /repo worktree add -q --detach %s HEAD '
                              '&& cp /repo/petl/version.py %s/petl/version.py'
                              % (wt, wt), shell=True)
    brief = subprocess.check_output(
        [sys.executable, os.path.join(VERIF, 'tools', 'agent_prompt.py'), p,
         wt]).decode().replace('/tmp/seed-%s/' % p, '/tmp/seed-%s/' % tag)
    open('/tmp/prompt-%s.txt' % tag, 'w').write(brief)
    avoid = '; '.join('(%d) %s' % (i + 1, t) for i, t in
                      enumerate(taken.get(p, [])))
    open('/tmp/launch-%s.txt' % p, 'w').write(
        'Read the file /tmp/prompt-%s.txt and carry out the task it describes '
        'exactly (it is your complete brief). Do not read anything under '
        '/verif. Work only in %s and /tmp/seed-%s. The following changes have '
        'already been made by other people and must NOT be reused (neither '
        'the same edit nor a trivial variation of it): %s. Look for something '
        'genuinely different: another operator or helper, another kind of '
        'mistake, another way it needs to be triggered. Changes that only '
        'show under a particular history (several passes, an edit or a '
        'failure in between), a particular interleaving, a particular '
        'configuration or an unusual but documented argument are the most '
        'valuable. Do NOT use `git stash` (it is shared between worktrees and '
        'other people work in parallel); use `git diff > file`, `git checkout '
        '-- .` and `git apply file`. Note: a script located outside the '
        'worktree gets its own directory as sys.path[0], so each demo.py must '
        'do `import sys, os; sys.path.insert(0, os.getcwd())` before `import '
        'petl` and be run with the worktree as the current directory. Also '
        'note `list(petl_table)` iterates the table twice (len() is called '
        'first); use `list(iter(t))` where it matters.'
        % (tag, wt, tag, avoid))
    print(tag, len(taken.get(p, [])), 'ideas taken')
