#!/usr/bin/env python3
"""Determinism self-test: the per-case event-log digests of a batch must be
identical (a) when each case is run twice, (b) in fresh interpreters under
different PYTHONHASHSEED values, (c) at worker counts 1, 4 and 16.

usage: selftest/determinism.py C01 [C05 ...] [--cases N]
"""
import os
import subprocess
import sys
import tempfile

VERIF = os.path.dirname(os.path.dirname(os.path.abspath(__file__)))


def batch(prop, cases, workers, hashseed, seed):
    d = tempfile.mkdtemp(prefix='petl-verif-det-')
    env = dict(os.environ, PYTHONHASHSEED=str(hashseed),
               VERIF_DUMP_DIGESTS=os.path.join(d, 'dig'),
               VERIF_SHRINK_S='0', VERIF_NO_EVIDENCE='1')
    p = subprocess.run([os.path.join(VERIF, 'check'), prop] +
                       (['--cases', str(cases)] if cases else []) +
                       ['--workers', str(workers), '--seed',
                        str(seed)], env=env, stdout=subprocess.PIPE,
                       stderr=subprocess.STDOUT, text=True)
    rows = {}
    for fn in os.listdir(d):
        with open(os.path.join(d, fn)) as f:
            for line in f:
                g, ck, status, dig = line.split()
                rows[int(g)] = (ck, status, dig)
        os.unlink(os.path.join(d, fn))
    os.rmdir(d)
    return rows, p.returncode, p.stdout


def main():
    args = sys.argv[1:]
    cases = 1500
    if '--cases' in args:
        i = args.index('--cases')
        cases = int(args[i + 1])
        del args[i:i + 2]
    bad = 0
    for prop in args:
        ref = None
        for (workers, hs, seed) in [(16, 0, 7), (16, 0, 7), (4, 12345, 7),
                                    (1, 999, 7), (16, 31337, 7)]:
            # (the 16-worker runs use the whole quick budget: a dependence
            # on the hash seed that one case in ten thousand has - a set
            # rendered as text - does not show in 1500)
            n = None if workers == 16 else \
                cases if workers > 1 else max(100, cases // 6)
            rows, rc, out = batch(prop, n, workers, hs, seed)
            if n is None:
                n = len(rows)
            if rc == 3 or len(rows) != n:
                print('%s: HARNESS problem rc=%d rows=%d\n%s'
                      % (prop, rc, len(rows), out[-2000:]))
                bad += 1
                continue
            if ref is None:
                ref = rows
                continue
            diff = [g for g in rows if g in ref and rows[g] != ref[g]]
            print('%s workers=%d PYTHONHASHSEED=%d cases=%d differing=%d %s'
                  % (prop, workers, hs, n, len(diff), diff[:8]))
            bad += len(diff)
    print('DETERMINISM', 'OK' if not bad else 'FAILED (%d)' % bad)
    return 1 if bad else 0


if __name__ == '__main__':
    sys.exit(main())
