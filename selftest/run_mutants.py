#!/usr/bin/env python3
"""Sensitivity self-test (not a registered command): apply each patch in
selftest/mutants/ (and seeded/*/patch.diff) to a scratch copy of /repo/petl,
run the quick check of the property it breaks with VERIF_REPO pointing at the
copy, and expect exit 1.  The copy lives outside /repo and /verif and is
removed afterwards.

usage: selftest/run_mutants.py [name-substring ...] [--tier quick]
"""
import glob
import json
import os
import shutil
import subprocess
import sys
import tempfile
import time

VERIF = os.path.dirname(os.path.dirname(os.path.abspath(__file__)))
REPO = os.environ.get('VERIF_REPO', '/repo')


def mutants():
    out = []
    for p in sorted(glob.glob(os.path.join(VERIF, 'selftest', 'mutants',
                                           '*.patch'))):
        name = os.path.basename(p)[:-6]
        props = name.split('-')[0].split('+')
        out.append((name, props, p))
    for d in sorted(glob.glob(os.path.join(VERIF, 'seeded', '*'))):
        meta = os.path.join(d, 'meta.json')
        patch = os.path.join(d, 'patch.diff')
        if os.path.exists(meta) and os.path.exists(patch):
            m = json.load(open(meta))
            if m.get('out_of_scope') or m.get('superseded') or \
                    m.get('still_missed'):
                # judged outside the property it was written against
                # (DESIGN.md 8.2): kept for the record, not expected to fail
                continue
            props = m.get('detected_by') or [m['property']]
            out.append(('seeded/' + os.path.basename(d), props, patch))
    return out


def run_one(name, props, patch, tier):
    scratch = tempfile.mkdtemp(prefix='petl-verif-mut-')
    try:
        shutil.copytree(os.path.join(REPO, 'petl'),
                        os.path.join(scratch, 'petl'),
                        ignore=shutil.ignore_patterns('__pycache__'))
        r = subprocess.run(['patch', '-p1', '-s', '-i', patch], cwd=scratch,
                           stdout=subprocess.PIPE, stderr=subprocess.STDOUT,
                           text=True)
        if r.returncode != 0:
            return [(p, 'PATCH-FAILED', r.stdout[-300:], 0) for p in props]
        res = []
        for prop in props:
            t0 = time.time()
            env = dict(os.environ, VERIF_REPO=scratch, VERIF_NO_EVIDENCE='1',
                       VERIF_SHRINK_S='5')
            r = subprocess.run([os.path.join(VERIF, 'check'), prop, '--tier',
                                tier], env=env, stdout=subprocess.PIPE,
                               stderr=subprocess.STDOUT, text=True)
            viol = [l for l in r.stdout.splitlines()
                    if l.startswith('VIOLATION') or l.startswith('  class=')]
            verdict = {0: 'MISSED', 1: 'CAUGHT'}.get(r.returncode,
                                                     'HARNESS-ERROR')
            detail = ' | '.join(viol[:2]) if viol else r.stdout[-300:]
            res.append((prop, verdict, detail, time.time() - t0))
        return res
    finally:
        shutil.rmtree(scratch, ignore_errors=True)
        for f in glob.glob(os.path.join(VERIF, 'replays', '*')):
            pass


def main():
    args = sys.argv[1:]
    tier = 'quick'
    if '--tier' in args:
        i = args.index('--tier')
        tier = args[i + 1]
        del args[i:i + 2]
    bad = 0
    for name, props, patch in mutants():
        if args and not any(a in name for a in args):
            continue
        for prop, verdict, detail, dt in run_one(name, props, patch, tier):
            print('%-8s %-50s %s (%.0fs) %s' % (verdict, name, prop, dt,
                                                detail[:160]))
            sys.stdout.flush()
            if verdict != 'CAUGHT':
                bad += 1
    print('MUTANTS', 'ALL CAUGHT' if not bad else '%d NOT CAUGHT' % bad)
    return 1 if bad else 0


if __name__ == '__main__':
    sys.exit(main())
