#!/usr/bin/env python3
"""Builds every variant of every recipe on a few standard tables and makes a
solo pass.  Prints the variants that never complete a pass (with the exception
they raise) so that a mistake in the catalogue - a misspelt keyword, a
function that does not take the argument - is seen instead of quietly turning
cases trivial.  Exit 1 if a variant fails with TypeError on every table."""
import os
import random
import sys

VERIF = os.path.dirname(os.path.dirname(os.path.abspath(__file__)))
sys.path.insert(0, VERIF)
from sim import devices                                   # noqa: E402
from sim.canon import enc_table                           # noqa: E402
from sim.catalogue import RECIPES, NAMES                  # noqa: E402
from sim.gen import gen_table, gen_sorted_table           # noqa: E402
from sim.loader import load_petl                          # noqa: E402
from sim.viewcase import build                            # noqa: E402


def tables_for(rec, rng, trial):
    out = []
    for i in range(max(rec.nsrc, 1)):
        if rec.profile in ('sorted', 'biggroups'):
            out.append(enc_table(gen_sorted_table(6 + trial, 5, stride=i + 1)))
        elif rec.profile == 'csvsafe':
            out.append(gen_table(rng, 6, minrows=3, profile='text',
                                 ragged=False))
        elif rec.profile == 'containers':
            out.append(gen_table(rng, 6, minrows=3, profile='containers',
                                 ragged=False, nfields=5))
        elif rec.profile == 'textish':
            out.append(gen_table(rng, 6, minrows=3, profile='default',
                                 ragged=False, nfields=5))
        else:
            out.append(gen_table(rng, 6, minrows=3, ragged=False, nfields=5,
                                 profile=['nonone', 'int', 'default'][trial % 3]))
    return out


def main():
    e = load_petl()
    bad = 0
    for name in NAMES:
        rec = RECIPES[name]
        for vi in range(len(rec.variants)):
            errs = []
            ok = False
            for trial in range(6):
                rng = random.Random(1000 * trial + vi)
                with devices.TempSandbox() as sb:
                    try:
                        w, views = build(e, [[name, vi]],
                                         tables_for(rec, rng, trial),
                                         tempdir=sb.path)
                        for v in views:
                            for _ in iter(v):
                                pass
                        w.close()
                        ok = True
                        break
                    except Exception as ex:
                        errs.append('%s: %s' % (type(ex).__name__, ex))
            if not ok:
                te = all(x.startswith('TypeError') for x in errs)
                print('%s variant %d never completes a pass: %s%s'
                      % (name, vi, errs[0][:160],
                         '   <-- TypeError on every table' if te else ''))
                if te:
                    bad += 1
    print('CATALOGUE', 'OK' if not bad else 'SUSPECT (%d)' % bad)
    return 1 if bad else 0


if __name__ == '__main__':
    sys.exit(main())
