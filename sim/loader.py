"""Import petl from the tree under test (VERIF_REPO, default /repo).

Nothing is ever written into that tree.  petl/version.py is git-ignored, so a
fresh restore may lack it: a stub module is injected in that case.
"""
import os
import sys
import types

_PETL = None


def repo_root():
    return os.path.realpath(os.environ.get('VERIF_REPO', '/repo'))


def load_petl():
    global _PETL
    if _PETL is not None:
        return _PETL
    root = repo_root()
    if not os.path.isdir(os.path.join(root, 'petl')):
        raise RuntimeError('no petl package under %s' % root)
    # the tree under test takes precedence over any installed copy
    sys.path[:] = [p for p in sys.path
                   if os.path.realpath(p or '.') != root]
    sys.path.insert(0, root)
    sys.dont_write_bytecode = True
    if not os.path.exists(os.path.join(root, 'petl', 'version.py')):
        stub = types.ModuleType('petl.version')
        stub.version = stub.__version__ = '0+verif'
        stub.__version_tuple__ = stub.version_tuple = (0, 'verif')
        stub.__commit_id__ = stub.commit_id = None
        sys.modules['petl.version'] = stub
    import logging
    import petl
    # petl warns through the logging module (e.g. fromdb on a bare cursor)
    logging.getLogger('petl').setLevel(logging.ERROR)
    here = os.path.realpath(petl.__file__)
    if not here.startswith(root + os.sep):
        raise RuntimeError('petl imported from %s, expected under %s'
                           % (here, root))
    _PETL = petl
    return petl


class Fluent(object):
    """petl seen through its method-call style: `e.func(table, ...)` becomes
    `petl.wrap(table).func(...)` for every function that is also bound as a
    method of petl.Table (all other names pass through).  The two styles are
    documented as equivalent; a method bound to the wrong function, or a
    method that loses an argument, only shows this way."""

    def __init__(self, petl):
        self._petl = petl
        from petl.util.base import Table
        self._Table = Table

    def __getattr__(self, name):
        petl = self._petl
        f = getattr(petl, name)
        Table = self._Table
        import inspect
        if not inspect.isfunction(f) or not hasattr(Table, name) \
                or name in ('wrap',):
            return f

        def call(table, *args, **kwargs):
            t = table if isinstance(table, Table) else petl.wrap(table)
            return getattr(t, name)(*args, **kwargs)
        call.__name__ = name
        return call
