"""Building views from a case, computing solo references, common shrinking."""
import copy

from . import devices
from .canon import dec_table, canon_row, canon_cell
from .catalogue import RECIPES, World
from .core import ddmin_lists


class StageWorld(object):
    """World seen by a stacked (unary) recipe: its only source is the view
    below; everything else is shared with the base world."""

    def __init__(self, base, view):
        self.s = [view]
        self.tables = None
        self.store = base.store
        self.tempdir = base.tempdir
        self.args = base.args
        self.keep = base.keep
        self._base = base
        self.aux = None

    def arg(self, obj):
        return self._base.arg(obj)


def build(e, stack, enc_tables, mode='alias', tempdir=None,
          table_factory=None, tables=None, wrap_sources=False, fluent=False):
    """-> (world, views).  stack = [[name, variant], ...]; the first entry is
    the base recipe fed from the sources, the others are unary recipes."""
    if tables is None:
        tables = [dec_table(t) for t in enc_tables]
    if fluent:
        # method-call style (table.func(...)) instead of petl.func(table, ...)
        from .loader import Fluent
        e = Fluent(e)
    # the clock petl.util.random reads (default seeds, `wait` delays) is a
    # simulated one, started afresh for every build: two builds of the same
    # stack see the same readings, and no real sleep ever happens
    import petl.util.random as prandom
    prandom.time = devices.SimClock()
    w = World(tables, mode=mode, tempdir=tempdir, table_factory=table_factory)
    if wrap_sources:
        # the sources reach the recipe as petl Table objects (as in the
        # fluent style: etl.wrap(src).op(...)), not as bare containers
        # ('cat': as views of a transform class of petl's own - the output
        # of an earlier pipeline stage handed on as an input)
        w.raw = list(w.s)
        w.s = [e.cat(s) if wrap_sources == 'cat' else e.wrap(s)
               for s in w.s]
    name, var = stack[0]
    rec = RECIPES[name]
    v = rec.variants[var % len(rec.variants)](e, w)
    views = tuple(v) if rec.multi else (v,)
    for name2, var2 in stack[1:]:
        r2 = RECIPES[name2]
        views = tuple(r2.variants[var2 % len(r2.variants)](e, StageWorld(w, vw))
                      for vw in views)
    if w.aux is not None and len(stack) == 1:
        views = views + (w.aux,)
    return w, views


def is_items(stack):
    return RECIPES[stack[-1][0]].items


def solo_reference(e, stack, enc_tables, mode='alias', tempdir=None,
                   limit=5000, wrap_sources=False):
    """Canonical sequences of a solo pass over each view of a freshly built
    identical pipeline (one fresh build per view).  Raises whatever the
    pipeline raises."""
    canon = canon_cell if is_items(stack) else canon_row
    out = []
    w, views = build(e, stack, enc_tables, mode, tempdir,
                     wrap_sources=wrap_sources)
    n = len(views)
    w.close()
    del views
    for vi in range(n):
        w, views = build(e, stack, enc_tables, mode, tempdir,
                         wrap_sources=wrap_sources)
        try:
            rows = []
            for r in views[vi]:
                rows.append(canon(r))
                if len(rows) > limit:
                    raise OverflowError('reference exceeds %d rows' % limit)
            out.append(rows)
        finally:
            w.close()
            del views
    return out


def shrink_common(case):
    """Candidates: drop stacked stages, cut the schedule, drop data rows,
    simplify steps."""
    st = case.get('stack')
    if st and len(st) > 1:
        for i in range(len(st) - 1, 0, -1):
            c = copy.deepcopy(case)
            del c['stack'][i]
            yield c
    steps = case.get('steps')
    if steps:
        for s in ddmin_lists(steps):
            c = copy.deepcopy(case)
            c['steps'] = s
            yield c
        for i, op in enumerate(steps):
            if op[0] in ('BURST', 'DRAIN'):
                c = copy.deepcopy(case)
                c['steps'][i] = ['NEXT', op[1]]
                yield c
            if op[0] == 'BURST' and op[2] > 1:
                c = copy.deepcopy(case)
                c['steps'][i] = ['BURST', op[1], op[2] - 1]
                yield c
    tabs = case.get('tables')
    if tabs:
        for ti, t in enumerate(tabs):
            data = t[1:]
            for d in ddmin_lists(data):
                c = copy.deepcopy(case)
                c['tables'][ti] = [t[0]] + d
                yield c
