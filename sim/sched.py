"""The iterator scheduler: tasks are iterators, one step is one next().

petl has no threads; the complete set of interleavings that exist for a view
is the set of interleavings of next() calls on its live iterators, which is
what a schedule enumerates.  Steps that refer to a task or view that does not
exist (any more) are no-ops, so any sub-list of a schedule is a schedule
(needed by the minimiser).
"""
import gc

from . import devices
from .canon import canon_row, canon_cell, canon_exc, show_rows, Log

MAX_ROWS = 5000


class Violation(Exception):
    def __init__(self, vclass, msg, **sig):
        Exception.__init__(self, msg)
        self.vclass = vclass
        self.msg = msg
        self.sig = sig


class Task(object):
    __slots__ = ('tid', 'vi', 'it', 'rows', 'objs', 'done', 'failed',
                 'started', 'pos')

    def __init__(self, tid, vi, it):
        self.tid = tid
        self.vi = vi
        self.it = it
        self.rows = []      # canonical rows delivered
        self.objs = []      # the delivered objects themselves
        self.done = False
        self.failed = None
        self.started = False
        self.pos = 0        # lossy mode: next candidate index in the reference


class Sched(object):
    """Executes a schedule over `views` (list; entries may be set to None by
    DROPVIEW).  `expected[vi]` is the canonical reference sequence or None.
    `items=True`: the views yield arbitrary items, not rows."""

    def __init__(self, views, expected, log=None, items=False,
                 expect_fault=None, on_row=None, after_step=None,
                 keep_objs=False, build_fresh=None, lossy=False):
        # lossy: rows may be missing (an injected fault lost them for good);
        # what is delivered is still a subsequence of the reference, in order
        self.lossy = lossy
        self.views = list(views)
        self.expected = expected
        self.log = log or Log()
        self.canon = canon_cell if items else canon_row
        self.tasks = {}
        self.expect_fault = expect_fault   # callable(task, exc) -> bool
        self.on_row = on_row
        self.after_step = after_step
        self.keep_objs = keep_objs
        self.nsteps = 0
        self.max_live = 0
        self.concurrent = False     # >= 2 started, unfinished tasks at once
        self.overlap = False        # >= 2 unfinished tasks after some progress
        self.rows_delivered = 0
        self.states = set()
        self.probes = {}
        self.fresh_passes = 0

    def probe(self, name, n=1):
        self.probes[name] = self.probes.get(name, 0) + n

    # -- helpers ----------------------------------------------------------
    def _live(self):
        return [t for t in self.tasks.values() if not t.done]

    def _check_prefix(self, t):
        exp = self.expected[t.vi]
        if exp is None:
            return
        n = len(t.rows)
        if self.lossy:
            j = t.pos
            if n == 1:
                # (the header is never lost)
                if not exp or t.rows[0] != exp[0]:
                    raise Violation(
                        'rows-diverge', 'iterator %s of view %d: first row '
                        'is %r, the header is %r' % (
                            t.tid, t.vi, t.rows[0], exp[0] if exp else None))
                t.pos = 1
                return
            while j < len(exp) and exp[j] != t.rows[n - 1]:
                j += 1
            if j >= len(exp):
                raise Violation(
                    'rows-diverge',
                    'iterator %s of view %d: row %d is %r, which is not '
                    'among the rows a solo pass over an identical fresh '
                    'view gives after those delivered so far (%s)'
                    % (t.tid, t.vi, n - 1, t.rows[n - 1], show_rows(exp)))
            t.pos = j + 1
            return
        if n > len(exp) or t.rows[n - 1] != exp[n - 1]:
            want = exp[n - 1] if n <= len(exp) else '<end of table>'
            raise Violation(
                'rows-diverge',
                'iterator %s of view %d: row %d is %r, a solo pass over an '
                'identical fresh view gives %r'
                % (t.tid, t.vi, n - 1, t.rows[n - 1], want))

    def _check_complete(self, t):
        exp = self.expected[t.vi]
        if exp is None or self.lossy:
            return
        if len(t.rows) != len(exp):
            raise Violation(
                'rows-missing',
                'iterator %s of view %d ended after %d rows, a solo pass '
                'over an identical fresh view gives %d: got %s expected %s'
                % (t.tid, t.vi, len(t.rows), len(exp), show_rows(t.rows),
                   show_rows(exp)))

    def _advance(self, t):
        """One next() on task t.  Returns False when the task is finished."""
        if t.done:
            return False
        with devices.as_task(t.tid):
            try:
                row = next(t.it)
            except StopIteration:
                t.done = True
                self.log.add('end', t.tid, len(t.rows))
                self._check_complete(t)
                return False
            except Violation:
                raise
            except (Exception, devices.SimSourceAbort) as e:
                t.done = True
                # (never keep the exception: its traceback pins the frames)
                t.failed = canon_exc(e)
                self.log.add('raise', t.tid, t.failed)
                if self.expect_fault is not None and \
                        self.expect_fault(t, e):
                    return False
                raise Violation(
                    'task-raised',
                    'iterator %s of view %d raised %s: %s after %d rows '
                    '(solo pass does not raise)'
                    % (t.tid, t.vi, type(e).__name__, e, len(t.rows)),
                    exc=type(e).__name__)
        t.started = True
        c = self.canon(row)
        t.rows.append(c)
        if self.keep_objs:
            t.objs.append(row)
        self.rows_delivered += 1
        self.log.add('row', t.tid, c)
        if len(t.rows) > MAX_ROWS:
            raise Violation('unbounded-output',
                            'iterator %s delivered more than %d rows'
                            % (t.tid, MAX_ROWS))
        self._check_prefix(t)
        if self.on_row is not None:
            self.on_row(t, row, c)
        return True

    # -- steps ------------------------------------------------------------
    def step(self, op):
        self.nsteps += 1
        kind = op[0]
        self.log.add('step', op)
        if kind == 'ITER':
            tid, vi = op[1], op[2]
            if tid in self.tasks or vi >= len(self.views) or \
                    self.views[vi] is None:
                return
            with devices.as_task(tid):
                try:
                    it = iter(self.views[vi])
                except (Exception, devices.SimSourceAbort) as e:
                    if self.expect_fault is not None and \
                            self.expect_fault(None, e):
                        # an injected fault surfaced from iter() itself
                        # (e.g. a hash join loads its build side there)
                        self.log.add('iter-failed', tid, canon_exc(e))
                        self.probe('iter-failed-by-injection')
                        return
                    raise Violation(
                        'iter-raised', 'iter() on view %d raised %s: %s'
                        % (vi, type(e).__name__, e), exc=type(e).__name__)
            self.tasks[tid] = Task(tid, vi, it)
        elif kind == 'NEXT':
            t = self.tasks.get(op[1])
            if t is not None:
                self._advance(t)
        elif kind == 'BURST':
            t = self.tasks.get(op[1])
            if t is not None:
                for _ in range(op[2]):
                    if not self._advance(t):
                        break
        elif kind == 'DRAIN':
            t = self.tasks.get(op[1])
            if t is not None:
                while self._advance(t):
                    pass
        elif kind == 'DROP':
            t = self.tasks.pop(op[1], None)
            if t is not None:
                t.it = None
                del t
        elif kind == 'CLOSE':
            t = self.tasks.get(op[1])
            if t is not None and not t.done:
                try:
                    if hasattr(t.it, 'close'):
                        t.it.close()
                except Exception as e:
                    raise Violation(
                        'close-raised', 'closing iterator %s raised %s: %s'
                        % (t.tid, type(e).__name__, e), exc=type(e).__name__)
                t.done = True
        elif kind == 'GC':
            gc.collect()
        elif kind == 'DROPVIEW':
            vi = op[1]
            if vi < len(self.views):
                self.views[vi] = None
        elif kind == 'CLEARCACHE':
            # the public cache reset of the caching views (sort, cache());
            # depth 1 addresses the view below the top one
            vi = op[1]
            if vi < len(self.views) and self.views[vi] is not None:
                v = self.views[vi]
                if len(op) > 2 and op[2]:
                    for a in ('inner', 'source', 'table'):
                        if hasattr(getattr(v, a, None), 'clearcache'):
                            v = getattr(v, a)
                            break
                if hasattr(v, 'clearcache'):
                    v.clearcache()
                    self.probe('clearcache-called')
        elif kind == 'FRESH':
            vi = op[1]
            if vi < len(self.views) and self.views[vi] is not None:
                self.fresh(vi)
        elif kind in ('LEN', 'LOOK', 'HEADER'):
            # petl's own consumers: they create an iterator behind the
            # scenes and exhaust it (len) or abandon it (look, header)
            vi = op[1]
            if vi < len(self.views) and self.views[vi] is not None:
                self._petl_consumer(kind, vi)
        else:
            raise ValueError('unknown step %r' % (op,))
        live = [t for t in self.tasks.values() if not t.done]
        self.max_live = max(self.max_live, len(live))
        if len([t for t in live if t.started]) >= 2:
            self.concurrent = True
        if len(live) >= 2 and self.rows_delivered > 0:
            self.overlap = True
        if self.after_step is not None:
            self.after_step(self, op)

    def _petl_consumer(self, kind, vi):
        from .loader import load_petl
        e = load_petl()
        view = self.views[vi]
        exp = self.expected[vi]
        if kind != 'LEN' and (self.canon is not canon_row or not exp):
            # look() and header() need a table with a header row
            return
        try:
            with devices.as_task('petl-' + kind.lower()):
                if kind == 'LEN':
                    n = len(view)
                    if exp is not None and n != len(exp) and not self.lossy:
                        raise Violation(
                            'len-differs', 'len(view %d) is %d, a solo pass '
                            'yields %d rows' % (vi, n, len(exp)))
                elif kind == 'LOOK':
                    str(e.look(view, limit=2))
                else:
                    h = e.header(view)
                    if exp is not None and exp and \
                            self.canon is canon_row and \
                            canon_row(h) != exp[0]:
                        raise Violation(
                            'header-differs', 'header(view %d) is %r, a '
                            'solo pass starts with %r' % (vi, h, exp[0]))
        except Violation:
            raise
        except (Exception, devices.SimSourceAbort) as ex:
            if self.expect_fault is not None and self.expect_fault(None, ex):
                self.log.add('consumer-failed', kind, canon_exc(ex))
                return
            raise Violation('task-raised', '%s on view %d raised %s: %s '
                            '(solo pass does not raise)'
                            % (kind.lower(), vi, type(ex).__name__, ex),
                            exc=type(ex).__name__)
        self.probe('petl-consumer:' + kind)

    def fresh(self, vi, label=None):
        """A new complete solo pass over view vi."""
        self.fresh_passes += 1
        tid = label or ('fresh%d' % self.fresh_passes)
        with devices.as_task(tid):
            try:
                it = iter(self.views[vi])
            except Exception as e:
                raise Violation('iter-raised',
                                'iter() on view %d raised %s: %s'
                                % (vi, type(e).__name__, e),
                                exc=type(e).__name__)
        t = Task(tid, vi, it)
        try:
            while self._advance(t):
                pass
        except Violation as v:
            v.vclass = 'fresh-pass-' + v.vclass
            v.msg = 'later pass: ' + v.msg
            raise
        return t

    def run(self, steps):
        for op in steps:
            self.step(op)

    def position_state(self, extra=''):
        """Abstract state: per live task a position bucket."""
        def bucket(t):
            exp = self.expected[t.vi]
            n = len(t.rows)
            if n == 0:
                return '0'
            if n == 1:
                return 'h'
            if exp is not None and n >= len(exp):
                return 'E'
            return 'm'
        return extra + '|' + ','.join(sorted(
            bucket(t) + ('x' if t.done else '') for t in self.tasks.values()))


# ---------------------------------------------------------------------------
# schedule generation

SHAPES = ('uniform', 'bursty', 'late', 'after-exhaust', 'roundrobin',
          'stagger')


def gen_schedule(rng, nviews=1, ntasks=None, maxsteps=40, shape=None,
                 ops_extra=(), nrows_hint=8):
    """A list of steps over `ntasks` iterator tasks.  The shapes matter for
    reach: e.g. the corner "an iterator created early but first advanced
    after another one got further" is rare under uniform choice."""
    shape = shape or rng.choice(SHAPES)
    ntasks = ntasks or rng.choice([2, 2, 3, 3])
    if ntasks == 1 and shape in ('late', 'after-exhaust'):
        shape = 'uniform'
    tids = ['t%d' % i for i in range(ntasks)]
    steps = []
    vi_of = dict((tid, rng.randrange(nviews)) for tid in tids)

    def it(tid):
        steps.append(['ITER', tid, vi_of[tid]])

    if shape == 'uniform':
        created = []
        n = rng.randint(6, maxsteps)
        for _ in range(n):
            r = rng.random()
            if (not created) or (r < 0.2 and len(created) < ntasks):
                tid = tids[len(created)]
                created.append(tid)
                it(tid)
            elif r < 0.8:
                steps.append(['NEXT', rng.choice(created)])
            elif r < 0.88:
                steps.append(['BURST', rng.choice(created),
                              rng.randint(2, 4)])
            elif r < 0.93:
                steps.append(['DRAIN', rng.choice(created)])
            elif r < 0.96:
                steps.append([rng.choice(['DROP', 'CLOSE']),
                              rng.choice(created)])
            else:
                steps.append(['GC'])
    elif shape == 'bursty':
        for tid in tids:
            it(tid)
        for _ in range(rng.randint(3, 10)):
            steps.append(['BURST', rng.choice(tids), rng.randint(1, 5)])
        for tid in tids:
            if rng.random() < 0.7:
                steps.append(['DRAIN', tid])
    elif shape == 'late':
        # all created up front, one runs far ahead, the others start late
        for tid in tids:
            it(tid)
        lead = tids[0]
        k = rng.randint(1, nrows_hint + 2)
        steps.append(['BURST', lead, k])
        if rng.random() < 0.5:
            steps.append(['DRAIN', lead])
        for tid in tids[1:]:
            steps.append(['BURST', tid, rng.randint(1, nrows_hint + 2)])
        for _ in range(rng.randint(0, 8)):
            steps.append(['NEXT', rng.choice(tids)])
        for tid in tids:
            if rng.random() < 0.6:
                steps.append(['DRAIN', tid])
    elif shape == 'after-exhaust':
        it(tids[0])
        if rng.random() < 0.5:
            steps.append(['DRAIN', tids[0]])
        else:
            steps.append(['BURST', tids[0], rng.randint(1, nrows_hint + 1)])
            steps.append([rng.choice(['DROP', 'CLOSE', 'NEXT']), tids[0]])
        for tid in tids[1:]:
            it(tid)
        for _ in range(rng.randint(2, 14)):
            steps.append(['NEXT', rng.choice(tids[1:])])
        for tid in tids[1:]:
            if rng.random() < 0.6:
                steps.append(['DRAIN', tid])
    elif shape == 'roundrobin':
        for tid in tids:
            it(tid)
        for _ in range(rng.randint(1, nrows_hint + 2)):
            for tid in tids:
                steps.append(['NEXT', tid])
        if rng.random() < 0.5:
            for tid in tids:
                steps.append(['DRAIN', tid])
    elif shape == 'stagger':
        # I1 N1 I2 N1 I3 N2 N3 ... : creation interleaved with single steps
        created = []
        for tid in tids:
            created.append(tid)
            it(tid)
            for _ in range(rng.randint(1, 3)):
                steps.append(['NEXT', rng.choice(created)])
        for _ in range(rng.randint(2, 12)):
            steps.append(['NEXT', rng.choice(created)])
        for tid in tids:
            if rng.random() < 0.5:
                steps.append(['DRAIN', tid])
    for op in ops_extra:
        pos = rng.randint(0, len(steps))
        steps.insert(pos, op)
    # petl's own consumers as hidden iterators (len exhausts, look/header
    # abandon)
    if rng.random() < 0.25:
        for _ in range(rng.choice([1, 1, 2])):
            steps.insert(rng.randint(0, len(steps)),
                         [rng.choice(['LEN', 'LOOK', 'HEADER']),
                          rng.randrange(nviews)])
    return steps[:maxsteps + len(ops_extra)], shape


def norm_schedule(steps):
    """Schedule up to renaming of task ids (for distinctness)."""
    names = {}
    out = []
    for op in steps:
        op = list(op)
        if len(op) > 1 and isinstance(op[1], str):
            op[1] = names.setdefault(op[1], 'T%d' % len(names))
        out.append(op)
    return out
