"""Seeded generators of small source tables (JSON-safe encoded).

Header is always a prefix of a,b,c,d,e.  Column tendencies (so that recipe
arguments naming fields make sense on every generated table):
  a : small ints (duplicate keys), sometimes None
  b : short strings from a small alphabet
  c : ints 0..9
  d : anything (None, bool, int, float, str)
  e : text with digits and separators
Profiles change the mix; `ragged` makes some rows short or long.
"""
import datetime
import fractions
import decimal

from .canon import enc

FIELDS = ['a', 'b', 'c', 'd', 'e']

_B = ['x', 'y', 'z', 'xy', 'x y', '', 'X']
_E = ['k1=v1', 'A12', 'b-7', '3,4', 'foo bar', '', '12', 'a1b2']
_D = [None, True, False, 0, 1, 2, -1, 1.5, 2.0, 'x', 'y', '', 'zz']

SAFE_SORT_VALUES = [
    None, None, False, True, 0, 1, 2, 3, -1, 1.5, 2.0, -0.5,
    decimal.Decimal('1.25'), decimal.Decimal('2'),
    'a', 'b', 'B', '', 'ab', 'é',
    b'a', b'b', b'',
    datetime.date(2020, 1, 2), datetime.date(2019, 5, 6),
    datetime.datetime(2020, 1, 2, 3, 4, 5), datetime.datetime(2019, 5, 6, 7),
    (1, 'a'), (1, 'b'), (None, 2), (0,),
]


def _cell(rng, col, profile):
    if profile == 'text':
        if col == 'a':
            return rng.choice(['1', '2', '3', 'x1', ''])
        if col == 'c':
            return str(rng.randint(0, 9))
        if col == 'd':
            return rng.choice(['p q', 'r', 's t u', '', 'v,w'])
    if profile == 'containers' and col == 'd':
        return rng.choice([{'p': 1}, {'q': 2}, {}, {'p': 3, 'q': 4},
                           [1, 2], [5], [], None, {'p': None},
                           (7, 8)])
    if profile == 'int':
        if col in ('b', 'e', 'd'):
            return rng.randint(0, 4)
    if profile == 'mixedkeys' and col == 'a':
        return rng.choice([None, 0, 1, 1.0, 2, 'x', 'y', True,
                           (1, 2), 1.5])
    if profile == 'nonone' and col == 'a':
        return rng.randint(0, 3)
    if col == 'a':
        return rng.choice([0, 1, 1, 2, 2, 3, None]) \
            if profile != 'nonone' else rng.randint(0, 3)
    if col == 'b':
        return rng.choice(_B)
    if col == 'c':
        return rng.randint(0, 9)
    if col == 'd':
        return rng.choice(_D)
    return rng.choice(_E)


def gen_table(rng, maxrows=8, minrows=0, profile=None, ragged=None,
              nfields=None, fields=None):
    profile = profile or rng.choice(['default', 'default', 'default',
                                     'mixedkeys', 'nonone', 'int'])
    nf = nfields or rng.randint(3, 5)
    hdr = list(fields) if fields else FIELDS[:nf]
    n = rng.randint(minrows, maxrows)
    if ragged is None:
        ragged = rng.random() < 0.2
    rows = [list(hdr)]
    for _ in range(n):
        row = [_cell(rng, f, profile) for f in hdr]
        if ragged:
            r = rng.random()
            if r < 0.2 and len(row) > 1:
                row = row[:rng.randint(1, len(row) - 1)]
            elif r < 0.3:
                row = row + [rng.choice([None, 'extra', 9])]
            elif r < 0.33:
                row = []
        rows.append(row)
    return [[enc(c) for c in row] for row in rows]


# numbers that are equal (==) to numbers petl ranks differently: Fraction
# (like a numpy scalar) is not among the types the ordering calls numbers,
# so 1 < Fraction(1) although 1 == Fraction(1)
_F = fractions.Fraction
EQNUM_VALUES = [0, 1, 2, _F(1), _F(2), _F(0), _F(1, 2), 1.0, True, None, 'a']


def gen_sort_table(rng, maxrows=8, nfields=None, ragged=None, minrows=0,
                   eqnum=False):
    """Tables over the conservative value domain of the reference sort."""
    nf = nfields or rng.randint(1, 4)
    hdr = FIELDS[:nf]
    n = rng.randint(minrows, maxrows)
    if ragged is None:
        ragged = rng.random() < 0.25
    # few distinct values per column -> duplicate keys
    pools = []
    kind = rng.choice(['ints', 'mixed', 'mixed', 'strs', 'few'])
    if eqnum:
        kind = 'eqnum'
    for _ in hdr:
        if kind == 'eqnum':
            pools.append(rng.sample(EQNUM_VALUES, rng.randint(3, 6)))
            continue
        if kind == 'ints':
            pool = [rng.randint(0, 3) for _ in range(3)] + [None]
        elif kind == 'strs':
            pool = ['a', 'b', 'B', '', 'ab']
        elif kind == 'few':
            pool = rng.sample(SAFE_SORT_VALUES, 2)
        else:
            pool = rng.sample(SAFE_SORT_VALUES, rng.randint(2, 6))
        pools.append(pool)
    rows = [list(hdr)]
    for i in range(n):
        row = [rng.choice(p) for p in pools]
        if ragged and rng.random() < 0.3:
            row = row[:rng.randint(0, len(row))]
        rows.append(row)
    return [[enc(c) for c in row] for row in rows]


def sorted_row(j, nf=5, stride=1):
    """Row number j (1-based data row index) of an endless table sorted by
    its first field and by whole rows: key groups of sizes 1, 2, 3, 1, 2, 3...
    `stride` 2 gives every second row of the stride-1 table (a sorted table
    sharing half of its rows with it)."""
    m = j
    j = (j - 1) * stride
    key = 3 * (j // 6) + [0, 1, 1, 2, 2, 2][j % 6]
    row = [key, 'r%07d' % j, j % 10, j % 4, 'e%d' % (j % 3)]
    if stride > 1 and m % 3 == 0:
        # every third row of the second table occurs in the first one with
        # another value in this column: same position in the order, not the
        # same row
        row[2] += 100
    return row[:nf]


def gen_sorted_table(n, nf=5, stride=1):
    return [FIELDS[:nf]] + [sorted_row(j, nf, stride) for j in range(1, n + 1)]
