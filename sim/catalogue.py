"""The view catalogue: name -> how to build the view(s) from simulated
sources, plus the declared facts the oracles use.

A recipe has `variants`: a flat enumeration of argument choices, each a
function (e, w) -> view (or tuple of views), e = the petl module, w = World.
A case stores (recipe name, variant index), so it stays JSON-serialisable.

Declared facts:
  stream   : None, or (kind, lookahead) with kind in map/filter/expand; the
             data rows pulled from the *streamed* sources for k delivered rows
             are <= k + lookahead (map/expand) and independent of the source
             length (all kinds)
  build    : indices of sources that a streaming view may scan completely
             when an iterator starts (hash join build side)
  hdr_ctor : constructor may read header rows
  items    : yields arbitrary items, not rows
  multi    : build returns a tuple of views
  temp     : may create temp files (C18)
  c01      : included in C01 (tee* are excluded by the property)
"""
import json as _json
import pickle as _pickle
import re
import collections
import operator
import sqlite3

from . import devices
from .devices import SimTable, SimStore


class World(object):
    """Everything a recipe may touch: row sources, a byte store, arguments
    that are mutable containers (for the non-mutation check)."""

    def __init__(self, tables, mode='alias', tempdir=None, table_factory=None):
        if table_factory is None and mode == 'plain':
            # the plain Python lists themselves (what most users pass):
            # nothing between petl and the caller's container
            self.s = list(tables)
        elif table_factory is None:
            self.s = [SimTable(t, mode=mode, name='s%d' % i)
                      for i, t in enumerate(tables)]
        else:
            self.s = [table_factory(i, t) for i, t in enumerate(tables)]
        self.tables = tables
        self.store = SimStore()
        self.tempdir = tempdir
        self.args = []
        self.arg_snaps = []
        self.keep = []      # objects that must stay alive (db connections)
        self.aux = None     # nested view the recipe wraps (counts as a
        #                     sibling view in C01 schedules)
        self._ndb = 0

    def arg(self, obj):
        """Register a mutable argument passed to petl (its state is recorded
        before petl sees it: a constructor may already touch it)."""
        from .canon import snapshot
        self.args.append(obj)
        self.arg_snaps.append(snapshot(obj))
        return obj

    def close(self):
        for k in self.keep:
            try:
                k.close()
            except Exception:
                pass
        self.keep = []
        self.aux = None
        self.s = []
        self.args = []


class Recipe(object):
    def __init__(self, name, nsrc, variants, group, stream=None, build=(),
                 hdr_ctor=False, items=False, multi=False, temp=False,
                 c01=True, profile=None, stack=True, rect=False,
                 fails=False, ends_after=None):
        self.name = name
        self.nsrc = nsrc
        self.variants = variants
        self.group = group
        self.stream = stream
        self.build = tuple(build)
        self.hdr_ctor = hdr_ctor
        self.items = items
        self.multi = multi
        self.temp = temp
        self.c01 = c01
        self.profile = profile
        self.stackable = stack and nsrc == 1 and not multi and not items
        self.rect = rect
        self.fails = fails      # never completes a pass (a bad argument)
        # variant index -> number of source rows after which the view ends,
        # whatever is asked of it (head(n), rowslice with a stop)
        self.ends_after = dict(ends_after or {})


RECIPES = {}


def R(name, nsrc, variants, group, **kw):
    assert name not in RECIPES, name
    RECIPES[name] = Recipe(name, nsrc, variants, group, **kw)


# ---------------------------------------------------------------------------
# callables used as arguments (module level: referenced by name in messages)

def f_upper(v):
    return v.upper() if isinstance(v, str) else v


def f_inc(v):
    return v + 1 if isinstance(v, int) and not isinstance(v, bool) else v


def f_str(v):
    return str(v)


def f_rowlen(row):
    return len(row)


def f_rec_a(rec):
    return rec['a']


def f_pred_a(rec):
    v = rec['a']
    return isinstance(v, int) and v >= 1


def f_pred_c(v):
    return isinstance(v, int) and v % 2 == 0


def f_rowmapper(row):
    return [row[0], len(row)]


def f_rowgen(row):
    yield [row[0], 'first']
    if len(row) > 1:
        yield [row[1], 'second']


def f_reducer(key, rows):
    return [key, sum(1 for _ in rows)]


def f_keep(xs):
    # returns the very object it was handed when that is a list
    return xs if isinstance(xs, list) else list(xs)


def f_groupmapper(key, rows):
    for r in rows:
        yield [key, len(r)]


def f_ctx(prv, cur, nxt):
    return (prv is None, nxt is None)


def f_ctxsel(prv, cur, nxt):
    return prv is None or nxt is None or cur[0] == prv[0]


def f_fold(a, b):
    return (a if isinstance(a, int) else 0) + (b if isinstance(b, int) else 0)


def _count(rows):
    return sum(1 for _ in rows)


# ---------------------------------------------------------------------------
# helpers to prepare byte sources

def _csv_bytes(tbl, delim=',', enc='utf-8'):
    import csv
    import io
    buf = io.StringIO(newline='')
    wr = csv.writer(buf, delimiter=delim)
    for row in tbl:
        wr.writerow(['' if c is None else c for c in row])
    return buf.getvalue().encode(enc)


def _put(w, name, data):
    w.store.files[name] = data
    return w.store.source(name)


def _from_csv(e, w, **kw):
    return e.fromcsv(_put(w, 'f.csv', _csv_bytes(w.tables[0])), **kw)


def _from_tsv(e, w, **kw):
    return e.fromtsv(_put(w, 'f.tsv', _csv_bytes(w.tables[0], '\t')), **kw)


def _from_pickle(e, w):
    data = b''.join(_pickle.dumps(tuple(r), 2) for r in w.tables[0])
    return e.frompickle(_put(w, 'f.p', data))


def _from_text(e, w, **kw):
    data = '\n'.join(' '.join(str(c) for c in r) for r in w.tables[0])
    return e.fromtext(_put(w, 'f.txt', (data + '\n').encode('utf-8')), **kw)


def _dicts_of(tbl):
    hdr = [str(h) for h in tbl[0]]
    out = []
    for r in tbl[1:]:
        d = {}
        for h, c in zip(hdr, r):
            d[h] = c if isinstance(c, (type(None), bool, int, float, str)) \
                else str(c)
        out.append(d)
    return out


def _from_json(e, w, lines=False):
    ds = _dicts_of(w.tables[0])
    if lines:
        data = ''.join(_json.dumps(d) + '\n' for d in ds)
        return e.fromjson(_put(w, 'f.jsonl', data.encode()), lines=True)
    hdr = [str(h) for h in w.tables[0][0]]
    return e.fromjson(_put(w, 'f.json', _json.dumps(ds).encode()),
                      header=hdr)


def _from_dicts_gen(e, w, closefault=False, **kw):
    src = w.s[0]
    it = iter(src)
    try:
        hdr = [str(h) for h in next(it)]
    except StopIteration:
        hdr = []

    def gen():
        try:
            for r in it:
                yield dict(zip(hdr, r))
        except GeneratorExit:
            if closefault:
                # a source that fails when it is shut down early (a cursor
                # whose result set was not drained)
                raise devices.SimCloseFault('closed before it was drained')
            raise
    return e.fromdicts(gen(), **kw)


def _from_dicts_list(e, w, **kw):
    return e.fromdicts(_dicts_of(w.tables[0]), **kw)


def _db(w, rows):
    conn = sqlite3.connect(':memory:')
    w.keep.append(conn)
    hdr = rows[0] if rows else ['a']
    conn.execute('create table t (%s)' % ', '.join('"%s"' % h for h in hdr))
    for r in rows[1:]:
        r = list(r)[:len(hdr)] + [None] * (len(hdr) - len(r))
        r = [c if isinstance(c, (type(None), int, float, str, bytes))
             else str(c) for c in r]
        conn.execute('insert into t values (%s)' % ','.join('?' * len(hdr)), r)
    conn.commit()
    return conn


def _from_db_conn(e, w):
    return e.fromdb(_db(w, w.tables[0]), 'select * from t order by rowid')


def _from_db_factory(e, w):
    conn = _db(w, w.tables[0])
    return e.fromdb(lambda: conn.cursor(), 'select * from t order by rowid')


def _from_xml(e, w):
    rows = w.tables[0]
    body = ''.join('<tr>' + ''.join('<td>%s</td>' % re.sub(r'[<&>]', '_',
                                                           str(c))
                                    for c in r) + '</tr>' for r in rows)
    return e.fromxml(_put(w, 'f.xml', ('<table>%s</table>' % body).encode()),
                     'tr', 'td')


def _cols(w):
    rows = w.tables[0]
    n = len(rows[0]) if rows else 0
    data = [list(r)[:n] + [None] * (n - len(r)) for r in rows[1:]]
    return [[r[i] for r in data] for i in range(n)], list(rows[0])


def _cache(e):
    # SortView has a boolean attribute `cache` that shadows the method
    from petl.util.materialise import cache
    return cache


def _aux(w, view):
    w.aux = view
    return view


# ---------------------------------------------------------------------------
# the recipes

MAP0 = ('map', 0)
MAP1 = ('map', 1)
FIL0 = ('filter', 0)
FIL1 = ('filter', 1)
EXP0 = ('expand', 0)

# -- util.base / wrappers
R('wrap', 1, [lambda e, w: e.wrap(w.s[0])], 'util.base', stream=MAP0)
R('data', 1, [lambda e, w: e.data(w.s[0]),
              lambda e, w: e.data(w.s[0], 1, 4)], 'util.base', stream=MAP1,
  items=True)
R('values', 1, [lambda e, w: e.values(w.s[0], 'a'),
                lambda e, w: e.values(w.s[0], 'a', 'c'),
                lambda e, w: e.values(w.s[0], 'c', missing='M')],
  'util.base', stream=MAP0, items=True)
R('dicts', 1, [lambda e, w: e.dicts(w.s[0]),
               lambda e, w: e.dicts(w.s[0], missing='M')], 'util.base',
  stream=MAP0, items=True)
R('records', 1, [lambda e, w: e.records(w.s[0])], 'util.base', stream=MAP0,
  items=True)
R('namedtuples', 1, [lambda e, w: e.namedtuples(w.s[0])], 'util.base',
  stream=MAP0, items=True)
R('empty', 0, [lambda e, w: e.empty()], 'util.base')
R('header-only-chain', 0,
  [lambda e, w: e.addfield(e.empty(), 'z', 1)], 'util.base')

# -- util.materialise
R('cache', 1, [lambda e, w: e.wrap(w.s[0]).cache(),
               lambda e, w: e.wrap(w.s[0]).cache(n=1),
               lambda e, w: e.wrap(w.s[0]).cache(n=2),
               lambda e, w: e.wrap(w.s[0]).cache(n=3),
               lambda e, w: e.wrap(w.s[0]).cache(n=5),
               lambda e, w: e.wrap(w.s[0]).cache(n=100),
               lambda e, w: e.wrap(w.s[0]).cache(n=0)],
  'util.materialise', stream=MAP0)
R('cache-of-sort', 1,
  [lambda e, w: _cache(e)(e.sort(w.s[0], 'a')),
   lambda e, w: _cache(e)(e.sort(w.s[0], 'a', buffersize=2), n=3)],
  'util.materialise', temp=True)

# -- util.random
R('randomtable', 0,
  [lambda e, w: e.randomtable(3, 6, seed=42),
   lambda e, w: e.randomtable(2, 9, seed=7),
   lambda e, w: e.randomtable(1, 0, seed=7)], 'util.random')


def _randint09():
    import random
    return random.randint(0, 9)


def _rnd():
    import random
    return random.random()


def _dummy(e, w, n, seed):
    return e.dummytable(n, seed=seed)


R('dummytable', 0,
  [lambda e, w: _dummy(e, w, 6, 42), lambda e, w: _dummy(e, w, 9, 3),
   lambda e, w: _dummy(e, w, 0, 3)], 'util.random')

# -- util.timing (clock replaced by the simulated one in the checks)
R('progress', 1,
  [lambda e, w: e.progress(w.s[0], 2, out=_Sink()),
   lambda e, w: e.progress(w.s[0], 1000, out=_Sink())], 'util.timing',
  stream=MAP0)
R('clock', 1, [lambda e, w: e.clock(w.s[0])], 'util.timing', stream=MAP0)

# -- util.counting / statistics (table-returning)
R('valuecounts', 1, [lambda e, w: e.valuecounts(w.s[0], 'b'),
                     lambda e, w: e.valuecounts(w.s[0], 'b', 'c')],
  'util.counting')
R('typecounts', 1, [lambda e, w: e.typecounts(w.s[0], 'd')], 'util.counting')
R('parsecounts', 1, [lambda e, w: e.parsecounts(w.s[0], 'b')],
  'util.counting')
R('stringpatterns', 1, [lambda e, w: e.stringpatterns(w.s[0], 'b')],
  'util.counting')
R('rowlengths', 1, [lambda e, w: e.rowlengths(w.s[0])], 'util.counting')

# -- transform.basics
R('cut', 1, [lambda e, w: e.cut(w.s[0], 'a', 'c'),
             lambda e, w: e.cut(w.s[0], 'c', 'a', missing='M'),
             lambda e, w: e.cut(w.s[0], 0, 'b'),
             lambda e, w: e.cut(w.s[0], w.arg(['b', 'a']))],
  'transform.basics', stream=MAP0)
R('cutout', 1, [lambda e, w: e.cutout(w.s[0], 'b'),
                lambda e, w: e.cutout(w.s[0], 'a', 'c')],
  'transform.basics', stream=MAP0)
R('movefield', 1, [lambda e, w: e.movefield(w.s[0], 'a', 2),
                   lambda e, w: e.movefield(w.s[0], 'c', 0)],
  'transform.basics', stream=MAP0)
R('cat', 2, [lambda e, w: e.cat(w.s[0], w.s[1]),
             lambda e, w: e.cat(w.s[0], w.s[1], missing='M'),
             lambda e, w: e.cat(w.s[0], w.s[1],
                                header=w.arg(['c', 'a', 'zz'])),
             lambda e, w: e.cat(w.s[0], w.s[0])],
  'transform.basics', stream=MAP0)
# (the second and third table of a concatenation stream too: the first one
# is cut short so that a consumer of a few rows gets there)
R('cat-after-short', 2,
  [lambda e, w: e.cat(e.head(w.s[0], 1), w.s[1]),
   lambda e, w: e.cat(e.head(w.s[0], 1),
                      e.setheader(w.s[1], ['p', 'q', 'r', 's', 't']),
                      header=w.arg(['a', 'b', 'c'])),
   lambda e, w: e.cat(e.head(w.s[0], 2),
                      e.setheader(w.s[1], ['p', 'q', 'r', 's', 't']),
                      e.head(w.s[0], 1), missing='M'),
   lambda e, w: e.stack(e.head(w.s[0], 1), w.s[1], missing='M')],
  'transform.basics', stream=('map', 2))
# field selections that fail after part of them matched (a misspelt name, a
# name given twice): the evaluation fails, the inputs stay as they were
R('bad-selection', 2,
  [lambda e, w: e.cut(w.s[0], 'a', 'nosuch'),
   lambda e, w: e.cutout(w.s[0], 'b', 'b', 'nosuch'),
   lambda e, w: e.sort(w.s[0], ('a', 'nosuch')),
   lambda e, w: e.join(w.s[0], w.s[1], key=('a', 'nosuch')),
   lambda e, w: e.movefield(e.cut(w.s[0], 'b', 'a', 'nosuch'), 'a', 0),
   lambda e, w: e.melt(w.s[0], 'a', variables=['b', 'nosuch']),
   lambda e, w: e.lookup(w.s[0], ('a', 'nosuch'), 'b') and w.s[0]],
  'util.base', c01=False, stack=False, fails=True)
# hash-based operators keyed on a field that holds unhashable values (lists,
# dicts): they fail - and leave the rows as they were
R('unhashable-keys', 2,
  [lambda e, w: e.hashantijoin(w.s[0], w.s[1], key='d'),
   lambda e, w: e.hashjoin(w.s[0], w.s[1], key='d'),
   lambda e, w: e.hashleftjoin(w.s[0], w.s[1], key=('a', 'd')),
   lambda e, w: e.hashlookupjoin(w.s[0], w.s[1], key='d'),
   lambda e, w: e.hashcomplement(w.s[0], w.s[1]),
   lambda e, w: e.hashintersection(w.s[0], w.s[1])],
  'transform.hashjoins', c01=False, stack=False, fails=True,
  profile='containers', rect=True)
R('stack', 2, [lambda e, w: e.stack(w.s[0], w.s[1]),
               lambda e, w: e.stack(w.s[0], w.s[1], missing='M',
                                    trim=False, pad=False),
               lambda e, w: e.stack(w.s[0], w.s[1], missing='M',
                                    trim=False, pad=True),
               lambda e, w: e.stack(w.s[0], w.s[1], trim=True, pad=False)],
  'transform.basics', stream=MAP0)
R('addfield', 1, [lambda e, w: e.addfield(w.s[0], 'z', 7),
                  lambda e, w: e.addfield(w.s[0], 'z', f_rec_a, index=0),
                  lambda e, w: e.addfield(w.s[0], 'z', f_rec_a, index=1,
                                          missing='M')],
  'transform.basics', stream=MAP0)
R('addfields', 1,
  [lambda e, w: e.addfields(w.s[0], w.arg([('y', 1), ('z', f_rec_a)])),
   lambda e, w: e.addfields(w.s[0], w.arg([('y', 1, 0), ('z', 2, 1)]))],
  'transform.basics', stream=MAP0)
R('rowslice', 1, [lambda e, w: e.rowslice(w.s[0], 2),
                  lambda e, w: e.rowslice(w.s[0], 1, 4),
                  lambda e, w: e.rowslice(w.s[0], 0, 6, 2)],
  'transform.basics', stream=FIL0, ends_after={0: 2, 1: 4, 2: 6, 3: 0})
R('head', 1, [lambda e, w: e.head(w.s[0], 3),
              lambda e, w: e.head(w.s[0], 0)], 'transform.basics',
  ends_after={0: 3, 1: 0, 2: 1, 3: 100},
  stream=FIL0)
R('tail', 1, [lambda e, w: e.tail(w.s[0], 2)], 'transform.basics')
R('skipcomments', 1, [lambda e, w: e.skipcomments(w.s[0], 'x')],
  'transform.basics', stream=FIL0)
R('annex', 2, [lambda e, w: e.annex(w.s[0], w.s[1]),
               lambda e, w: e.annex(w.s[0], w.s[1], missing='M')],
  'transform.basics', stream=MAP0)
R('addrownumbers', 1,
  [lambda e, w: e.addrownumbers(w.s[0]),
   lambda e, w: e.addrownumbers(w.s[0], 5, 3, field='n')],
  'transform.basics', stream=MAP0)
R('addcolumn', 1,
  [lambda e, w: e.addcolumn(w.s[0], 'z', w.arg([10, 20, 30])),
   lambda e, w: e.addcolumn(w.s[0], 'z', w.arg([10, 20, 30, 40, 50, 60, 70,
                                                80, 90, 100]),
                            index=1, missing='M')],
  'transform.basics', stream=MAP0)
R('addcolumn-view', 2,
  [lambda e, w: e.addcolumn(w.s[0], 'z', e.values(w.s[1], 'c')),
   lambda e, w: e.addcolumn(w.s[0], 'z', e.values(e.convert(w.s[1], 'c',
                                                            f_inc), 'c'),
                            index=0, missing='M')],
  'transform.basics', stream=MAP0)
R('addfieldusingcontext', 1,
  [lambda e, w: e.addfieldusingcontext(w.s[0], 'z', f_ctx)],
  'transform.basics', stream=MAP1)

# -- transform.headers
R('rename', 1, [lambda e, w: e.rename(w.s[0], 'a', 'A'),
                lambda e, w: e.rename(w.s[0], w.arg({'a': 'A', 'b': 'B'})),
                lambda e, w: e.rename(w.s[0], w.arg({'a': 'A', 'q': 'Q'}),
                                      strict=False)],
  'transform.headers', stream=MAP0)
R('setheader', 1, [lambda e, w: e.setheader(w.s[0], w.arg(['p', 'q', 'r']))],
  'transform.headers', stream=MAP0)
R('extendheader', 1, [lambda e, w: e.extendheader(w.s[0], w.arg(['y', 'z']))],
  'transform.headers', stream=MAP0)
R('pushheader', 1, [lambda e, w: e.pushheader(w.s[0], w.arg(['p', 'q', 'r'])),
                    lambda e, w: e.pushheader(w.s[0], 'p', 'q')],
  'transform.headers', stream=MAP0)
R('skip', 1, [lambda e, w: e.skip(w.s[0], 1),
              lambda e, w: e.skip(w.s[0], 2)], 'transform.headers',
  stream=('map', 2))
R('prefixheader', 1, [lambda e, w: e.prefixheader(w.s[0], 'p_')],
  'transform.headers', stream=MAP0)
R('suffixheader', 1, [lambda e, w: e.suffixheader(w.s[0], '_s')],
  'transform.headers', stream=MAP0)
R('sortheader', 1, [lambda e, w: e.sortheader(e.cut(w.s[0], 'c', 'a', 'b')),
                    lambda e, w: e.sortheader(w.s[0], reverse=True,
                                              missing='M')],
  'transform.headers', stream=MAP0)

# -- transform.conversions
R('convert', 1,
  [lambda e, w: e.convert(w.s[0], 'b', f_upper),
   lambda e, w: e.convert(w.s[0], 'b', 'upper', failonerror=False),
   lambda e, w: e.convert(w.s[0], 'a', w.arg({1: 'one', 2: 'two'})),
   lambda e, w: e.convert(w.s[0], ('a', 'c'), f_inc),
   lambda e, w: e.convert(w.s[0], w.arg({'a': f_inc, 'b': f_upper})),
   lambda e, w: e.convert(w.s[0], 'c', f_inc, where=f_pred_a),
   lambda e, w: e.convert(w.s[0], 'c', lambda v, row: (v, len(row)),
                          pass_row=True)],
  'transform.conversions', stream=MAP0)
R('convertall', 1, [lambda e, w: e.convertall(w.s[0], f_str)],
  'transform.conversions', stream=MAP0, hdr_ctor=True)
R('replace', 1, [lambda e, w: e.replace(w.s[0], 'b', 'x', 'XX')],
  'transform.conversions', stream=MAP0)
R('replaceall', 1, [lambda e, w: e.replaceall(w.s[0], 1, 'one')],
  'transform.conversions', stream=MAP0, hdr_ctor=True)
R('update', 1, [lambda e, w: e.update(w.s[0], 'c', 0),
                lambda e, w: e.update(w.s[0], 'c', 0, where=f_pred_a)],
  'transform.conversions', stream=MAP0)
R('convertnumbers', 1, [lambda e, w: e.convertnumbers(w.s[0])],
  'transform.conversions', stream=MAP0, hdr_ctor=True)
R('format', 1, [lambda e, w: e.format(w.s[0], 'c', '{:>4}')],
  'transform.conversions', stream=MAP0)
R('formatall', 1, [lambda e, w: e.formatall(w.s[0], '<{}>')],
  'transform.conversions', stream=MAP0, hdr_ctor=True)
R('interpolate', 1, [lambda e, w: e.interpolate(w.s[0], 'b', '[%s]')],
  'transform.conversions', stream=MAP0)
R('interpolateall', 1, [lambda e, w: e.interpolateall(w.s[0], '[%s]')],
  'transform.conversions', stream=MAP0, hdr_ctor=True)

# -- transform.fills
R('filldown', 1, [lambda e, w: e.filldown(w.s[0]),
                  lambda e, w: e.filldown(w.s[0], 'a', 'd'),
                  lambda e, w: e.filldown(w.s[0], 'd', missing='')],
  'transform.fills', stream=MAP0)
R('fillright', 1, [lambda e, w: e.fillright(w.s[0]),
                   lambda e, w: e.fillright(w.s[0], missing='')],
  'transform.fills', stream=MAP0)
R('fillleft', 1, [lambda e, w: e.fillleft(w.s[0]),
                  lambda e, w: e.fillleft(w.s[0], missing='')],
  'transform.fills', stream=MAP0)

# -- transform.maps
R('fieldmap', 1,
  [lambda e, w: e.fieldmap(w.s[0], w.arg(
      {'A': 'a', 'B': ('b', f_upper), 'n': f_rec_a})),
   lambda e, w: e.fieldmap(w.s[0], w.arg(
       {'A': 'a', 'B': ('b', w.arg({'x': 'ex'}))}), failonerror=False)],
  'transform.maps', stream=MAP0)
R('rowmap', 1,
  [lambda e, w: e.rowmap(w.s[0], f_rowmapper, header=w.arg(['k', 'n'])),
   lambda e, w: e.rowmap(w.s[0], f_rowmapper, header=['k', 'n'],
                         failonerror=False)],
  'transform.maps', stream=MAP0)
R('rowmapmany', 1,
  [lambda e, w: e.rowmapmany(w.s[0], f_rowgen, header=w.arg(['k', 'w']))],
  'transform.maps', stream=EXP0)
R('rowgroupmap', 1,
  [lambda e, w: e.rowgroupmap(w.s[0], 'a', f_groupmapper,
                              header=w.arg(['k', 'n'])),
   lambda e, w: e.rowgroupmap(w.s[0], 'a', f_groupmapper, header=['k', 'n'],
                              buffersize=2)],
  'transform.maps', temp=True)

# -- transform.regex (text profile)
R('capture', 1,
  [lambda e, w: e.capture(w.s[0], 'e', r'([a-zA-Z]*)(\d*)',
                          w.arg(['w', 'n']), fill=w.arg(['', ''])),
   lambda e, w: e.capture(w.s[0], 'e', r'(\w?)(.?)', include_original=True,
                          fill=['', ''])],
  'transform.regex', stream=MAP0, profile='textish')
R('split', 1,
  [lambda e, w: e.split(w.s[0], 'e', r'[=,\- ]', w.arg(['l', 'r'])),
   lambda e, w: e.split(w.s[0], 'e', '=', ['l', 'r'], include_original=True,
                        maxsplit=1)],
  'transform.regex', stream=MAP0, profile='textish')
R('sub', 1, [lambda e, w: e.sub(w.s[0], 'b', 'x', 'Q'),
             lambda e, w: e.sub(w.s[0], 'e', r'\d', '#', count=1)],
  'transform.regex', stream=MAP0, profile='textish')
R('search', 1, [lambda e, w: e.search(w.s[0], 'b', 'x'),
                lambda e, w: e.search(w.s[0], 'x|1')],
  'transform.regex', stream=FIL0, profile='textish')
R('searchcomplement', 1,
  [lambda e, w: e.searchcomplement(w.s[0], 'b', 'x'),
   lambda e, w: e.searchcomplement(w.s[0], 'x|1')],
  'transform.regex', stream=FIL0, profile='textish')
R('splitdown', 1, [lambda e, w: e.splitdown(w.s[0], 'e', r'[=, ]')],
  'transform.regex', stream=EXP0, profile='textish')

# -- transform.unpacks
R('unpack', 1,
  [lambda e, w: e.unpack(e.convert(w.s[0], 'c', lambda v: [v, 'u']), 'c',
                         w.arg(['p', 'q'])),
   lambda e, w: e.unpack(e.convert(w.s[0], 'c', lambda v: (v,)), 'c',
                         ['p', 'q'], include_original=True, missing='M')],
  'transform.unpacks', stream=MAP0)
R('unpackdict', 1,
  [lambda e, w: e.unpackdict(e.convert(w.s[0], 'c', lambda v: {'p': v}), 'c',
                             keys=w.arg(['p', 'q'])),
   lambda e, w: e.unpackdict(e.convert(w.s[0], 'c', lambda v: {'p': v}), 'c',
                             samplesize=2, includeoriginal=True)],
  'transform.unpacks', stream=('map', 2))

R('unpack-src', 1,
  [lambda e, w: e.unpack(w.s[0], 'd', w.arg(['p', 'q'])),
   lambda e, w: e.unpack(w.s[0], 'd', ['p', 'q', 'r'], include_original=True,
                         missing='M')],
  'transform.unpacks', stream=MAP0, profile='containers')
R('unpackdict-src', 1,
  [lambda e, w: e.unpackdict(w.s[0], 'd', keys=w.arg(['p', 'q'])),
   lambda e, w: e.unpackdict(w.s[0], 'd', keys=['q', 'zz'], missing='M',
                             includeoriginal=True),
   lambda e, w: e.unpackdict(w.s[0], 'd', samplesize=3)],
  'transform.unpacks', stream=('map', 3), profile='containers')

# -- transform.reshape
R('melt', 1, [lambda e, w: e.melt(w.s[0], 'a'),
              lambda e, w: e.melt(w.s[0], key=w.arg(['a', 'b'])),
              lambda e, w: e.melt(w.s[0], 'a', variables=w.arg(['c']))],
  'transform.reshape', stream=FIL0)   # no value fields -> no output rows
R('recast', 1,
  [lambda e, w: e.recast(e.melt(w.s[0], 'a', variables=['b', 'c'])),
   lambda e, w: e.recast(e.melt(w.s[0], 'a', variables=['c']),
                         reducers=w.arg({'c': _count}), missing='M')],
  'transform.reshape', temp=True)
R('transpose', 1, [lambda e, w: e.transpose(w.s[0])], 'transform.reshape')
R('pivot', 1, [lambda e, w: e.pivot(w.s[0], 'a', 'b', 'c', _count),
               lambda e, w: e.pivot(w.s[0], 'a', 'b', 'c', _count,
                                    missing=0, buffersize=2)],
  'transform.reshape', temp=True)
R('flatten', 1, [lambda e, w: e.flatten(w.s[0])], 'transform.reshape',
  stream=EXP0, items=True)
R('unflatten', 1,
  [lambda e, w: e.unflatten(e.values(w.s[0], 'c'), 2),
   lambda e, w: e.unflatten(w.s[0], 'c', 3, missing='M')],
  'transform.reshape', stream=('contract', 0, 3))
# (contract: up to 3 input rows make one output row - filter-like for the
# generic rules, with a bound of its own in C02)

# -- transform.selects
R('select', 1, [lambda e, w: e.select(w.s[0], f_pred_a),
                lambda e, w: e.select(w.s[0], 'c', f_pred_c),
                lambda e, w: e.select(w.s[0], "{c} > 3"),
                lambda e, w: e.select(w.s[0], f_pred_a, complement=True),
                lambda e, w: e.select(w.s[0], 'c', f_pred_c, missing=0)],
  'transform.selects', stream=FIL0)
R('selectop', 1,
  [lambda e, w: e.selecteq(w.s[0], 'a', 1),
   lambda e, w: e.selectne(w.s[0], 'a', 1),
   lambda e, w: e.selectlt(w.s[0], 'a', 2),
   lambda e, w: e.selectle(w.s[0], 'd', 1),
   lambda e, w: e.selectgt(w.s[0], 'd', 'x'),
   lambda e, w: e.selectge(w.s[0], 'a', None),
   lambda e, w: e.selectin(w.s[0], 'a', w.arg([1, 2])),
   lambda e, w: e.selectnotin(w.s[0], 'a', (1, 2)),
   lambda e, w: e.selectcontains(w.s[0], 'b', 'x'),
   lambda e, w: e.selectis(w.s[0], 'a', None),
   lambda e, w: e.selectisnot(w.s[0], 'a', None),
   lambda e, w: e.selectisinstance(w.s[0], 'd', str),
   lambda e, w: e.selectrangeopenleft(w.s[0], 'c', 2, 6),
   lambda e, w: e.selectrangeopenright(w.s[0], 'c', 2, 6),
   lambda e, w: e.selectrangeopen(w.s[0], 'c', 2, 6),
   lambda e, w: e.selectrangeclosed(w.s[0], 'c', 2, 6),
   lambda e, w: e.selecttrue(w.s[0], 'd'),
   lambda e, w: e.selectfalse(w.s[0], 'd'),
   lambda e, w: e.selectnone(w.s[0], 'a'),
   lambda e, w: e.selectnotnone(w.s[0], 'a', complement=True)],
  'transform.selects', stream=FIL0)
R('rowlenselect', 1, [lambda e, w: e.rowlenselect(w.s[0], 3),
                      lambda e, w: e.rowlenselect(w.s[0], 3, complement=True)],
  'transform.selects', stream=FIL0)
R('selectusingcontext', 1,
  [lambda e, w: e.selectusingcontext(w.s[0], f_ctxsel)],
  'transform.selects', stream=('filter-end', 1))   # sees the end of the table
R('biselect', 1, [lambda e, w: e.biselect(w.s[0], f_pred_a)],
  'transform.selects', stream=FIL0, multi=True)
R('facet', 1, [lambda e, w: tuple(v for k, v in sorted(
    e.facet(e.selectnotnone(w.tables[0], 'a'), 'a').items()))[:2] or
    (e.empty(),)], 'transform.selects', multi=True)

# -- transform.validation
R('validate', 1,
  [lambda e, w: e.validate(w.s[0], constraints=w.arg([
      dict(name='a_int', field='a', test=int),
      dict(name='c_even', field='c', assertion=f_pred_c)]),
      header=w.arg(('a', 'b', 'c')))],
  'transform.validation', stream=FIL0)

# (the container tested against is itself a lazy view over another source:
# nothing of it may be read before rows are requested)
R('selectin-lazy', 2,
  [lambda e, w: e.selectin(w.s[0], 'a', e.values(w.s[1], 'a')),
   lambda e, w: e.selectnotin(w.s[0], 'a', e.values(w.s[1], 'a')),
   lambda e, w: e.selectin(w.s[0], 'a', e.values(e.cut(w.s[1], 'a'), 'a'),
                           complement=True)],
  'transform.selects', stream=FIL0, build=(1,))

# -- transform.hashjoins
R('hashjoin', 2,
  [lambda e, w: e.hashjoin(w.s[0], w.s[1], key='a'),
   lambda e, w: e.hashjoin(w.s[0], w.s[1], key='a', cache=False),
   lambda e, w: e.hashjoin(w.s[0], w.s[1], key=w.arg(['a', 'b']),
                           lprefix='l_', rprefix='r_'),
   lambda e, w: e.hashjoin(w.s[0], w.s[1], lkey='a', rkey='c')],
  'transform.hashjoins', stream=FIL0, build=(1,))
R('hashjoin-natural', 2, [lambda e, w: e.hashjoin(e.cut(w.s[0], 'a', 'b'),
                                                  e.cut(w.s[1], 'a', 'c'))],
  'transform.hashjoins', stream=FIL0, build=(1,), hdr_ctor=True)
R('hashleftjoin', 2,
  [lambda e, w: e.hashleftjoin(w.s[0], w.s[1], key='a'),
   lambda e, w: e.hashleftjoin(w.s[0], w.s[1], key='a', cache=False,
                               missing='M')],
  'transform.hashjoins', stream=EXP0, build=(1,))
R('hashrightjoin', 2,
  [lambda e, w: e.hashrightjoin(w.s[1], w.s[0], key='a'),
   lambda e, w: e.hashrightjoin(w.s[1], w.s[0], key='a', cache=False,
                                missing='M')],
  'transform.hashjoins', stream=EXP0, build=(1,))
R('hashantijoin', 2,
  [lambda e, w: e.hashantijoin(w.s[0], w.s[1], key='a'),
   lambda e, w: e.hashantijoin(w.s[0], w.s[1], lkey='a', rkey='c')],
  'transform.hashjoins', stream=FIL0, build=(1,))
R('hashlookupjoin', 2,
  [lambda e, w: e.hashlookupjoin(w.s[0], w.s[1], key='a'),
   lambda e, w: e.hashlookupjoin(w.s[0], w.s[1], key='a', missing='M')],
  'transform.hashjoins', stream=MAP0, build=(1,))

# -- transform.joins
R('join', 2,
  [lambda e, w: e.join(w.s[0], w.s[1], key='a'),
   lambda e, w: e.join(w.s[0], w.s[1], key='a', buffersize=2),
   lambda e, w: e.join(w.s[0], w.s[1], key='a', buffersize=2, cache=False),
   lambda e, w: e.join(w.s[0], w.s[1], lkey='a', rkey='c',
                       lprefix='l', rprefix='r')],
  'transform.joins', temp=True)
R('leftjoin', 2,
  [lambda e, w: e.leftjoin(w.s[0], w.s[1], key='a'),
   lambda e, w: e.leftjoin(w.s[0], w.s[1], key='a', missing='M',
                           buffersize=3)], 'transform.joins', temp=True)
R('rightjoin', 2,
  [lambda e, w: e.rightjoin(w.s[0], w.s[1], key='a'),
   lambda e, w: e.rightjoin(w.s[0], w.s[1], key='a', buffersize=1)],
  'transform.joins', temp=True)
R('outerjoin', 2,
  [lambda e, w: e.outerjoin(w.s[0], w.s[1], key='a'),
   lambda e, w: e.outerjoin(w.s[0], w.s[1], key='a', buffersize=2,
                            cache=False)], 'transform.joins', temp=True)
R('join-natural', 2,
  [lambda e, w: e.join(e.cut(w.s[0], 'a', 'b'), e.cut(w.s[1], 'a', 'c')),
   lambda e, w: e.leftjoin(e.cut(w.s[0], 'a', 'b'), e.cut(w.s[1], 'a', 'c'),
                           buffersize=2),
   lambda e, w: e.outerjoin(e.cut(w.s[0], 'a', 'b'),
                            e.cut(w.s[1], 'a', 'c')),
   lambda e, w: e.antijoin(e.cut(w.s[0], 'a', 'b'), e.cut(w.s[1], 'a', 'c')),
   lambda e, w: e.lookupjoin(e.cut(w.s[0], 'a', 'b'),
                             e.cut(w.s[1], 'a', 'c'))],
  'transform.joins', temp=True, hdr_ctor=True)
R('crossjoin', 2, [lambda e, w: e.crossjoin(w.s[0], w.s[1]),
                   lambda e, w: e.crossjoin(w.s[0], w.s[1], prefix=True)],
  'transform.joins')
R('antijoin', 2,
  [lambda e, w: e.antijoin(w.s[0], w.s[1], key='a'),
   lambda e, w: e.antijoin(w.s[0], w.s[1], key='a', buffersize=2)],
  'transform.joins', temp=True)
R('lookupjoin', 2,
  [lambda e, w: e.lookupjoin(w.s[0], w.s[1], key='a'),
   lambda e, w: e.lookupjoin(w.s[0], w.s[1], key='a', buffersize=2)],
  'transform.joins', temp=True)
R('unjoin', 1,
  [lambda e, w: e.unjoin(w.s[0], 'b'),
   lambda e, w: e.unjoin(w.s[0], 'b', key='a'),
   lambda e, w: e.unjoin(w.s[0], 'b', buffersize=2)],
  'transform.joins', multi=True, temp=True)

# -- transform.setops
R('complement', 2,
  [lambda e, w: e.complement(w.s[0], w.s[1]),
   lambda e, w: e.complement(w.s[0], w.s[1], buffersize=2, strict=True)],
  'transform.setops', temp=True)
R('recordcomplement', 2,
  [lambda e, w: e.recordcomplement(w.s[0], w.s[1]),
   lambda e, w: e.recordcomplement(w.s[0], w.s[1], buffersize=2)],
  'transform.setops', temp=True, hdr_ctor=True, rect=True)
R('diff', 2, [lambda e, w: e.diff(w.s[0], w.s[1]),
              lambda e, w: e.diff(w.s[0], w.s[1], buffersize=2)],
  'transform.setops', multi=True, temp=True)
R('recorddiff', 2, [lambda e, w: e.recorddiff(w.s[0], w.s[1]),
                    lambda e, w: e.recorddiff(w.s[0], w.s[1], buffersize=2)],
  'transform.setops', multi=True, temp=True, hdr_ctor=True, rect=True)
R('intersection', 2,
  [lambda e, w: e.intersection(w.s[0], w.s[1]),
   lambda e, w: e.intersection(w.s[0], w.s[1], buffersize=2)],
  'transform.setops', temp=True)
R('hashcomplement', 2,
  [lambda e, w: e.hashcomplement(w.s[0], w.s[1]),
   lambda e, w: e.hashcomplement(w.s[0], w.s[1], strict=True)],
  'transform.setops', stream=FIL0, build=(1,))
R('hashintersection', 2, [lambda e, w: e.hashintersection(w.s[0], w.s[1])],
  'transform.setops', stream=FIL0, build=(1,))

# -- transform.dedup
R('duplicates', 1,
  [lambda e, w: e.duplicates(w.s[0], 'a'),
   lambda e, w: e.duplicates(w.s[0]),
   lambda e, w: e.duplicates(w.s[0], 'a', buffersize=2)],
  'transform.dedup', temp=True)
R('unique', 1,
  [lambda e, w: e.unique(w.s[0], 'a'),
   lambda e, w: e.unique(w.s[0], key=w.arg(['a', 'b']), buffersize=2)],
  'transform.dedup', temp=True)
R('conflicts', 1,
  [lambda e, w: e.conflicts(w.s[0], 'a'),
   lambda e, w: e.conflicts(w.s[0], 'a', exclude='c', buffersize=2)],
  'transform.dedup', temp=True)
R('distinct', 1,
  [lambda e, w: e.distinct(w.s[0]),
   lambda e, w: e.distinct(w.s[0], 'a', buffersize=2),
   lambda e, w: e.distinct(w.s[0], 'a', count='n')],
  'transform.dedup', temp=True)

# -- transform.reductions
R('rowreduce', 1,
  [lambda e, w: e.rowreduce(w.s[0], 'a', f_reducer,
                            header=w.arg(['k', 'n'])),
   lambda e, w: e.rowreduce(w.s[0], 'a', f_reducer, header=['k', 'n'],
                            buffersize=2)],
  'transform.reductions', temp=True)
R('aggregate', 1,
  [lambda e, w: e.aggregate(w.s[0], 'a', len),
   lambda e, w: e.aggregate(w.s[0], 'a', _count, 'c', buffersize=2),
   lambda e, w: e.aggregate(w.s[0], 'a', w.arg(
       {'n': len, 'cs': ('c', list)})),
   lambda e, w: e.aggregate(w.s[0], None, w.arg({'n': len})),
   lambda e, w: e.aggregate(w.s[0], key=('a', 'b'), aggregation=len)],
  'transform.reductions', temp=True)
R('mergeduplicates', 1,
  [lambda e, w: e.mergeduplicates(w.s[0], 'a'),
   lambda e, w: e.mergeduplicates(w.s[0], 'a', missing='', buffersize=2)],
  'transform.reductions', temp=True)
R('merge', 2, [lambda e, w: e.merge(w.s[0], w.s[1], key='a')],
  'transform.reductions', temp=True)
R('fold', 1,
  [lambda e, w: e.fold(w.s[0], 'a', f_fold, value='c'),
   lambda e, w: e.fold(w.s[0], 'a', f_fold, value='c', buffersize=2)],
  'transform.reductions', temp=True)
# (folding cells that are lists with the library's own `add`: the result is
# a new list, the cells it was made from are as they were; cells of other
# kinds in that column make the fold fail, which changes nothing either)
R('fold-lists', 1,
  [lambda e, w: e.fold(w.s[0], 'a', operator.add, value='d'),
   lambda e, w: e.fold(w.s[0], 'a', operator.add, value='d', presorted=True)],
  'transform.reductions', c01=False, stack=False, fails=True,
  profile='containers', rect=True)
R('groupselectfirst', 1,
  [lambda e, w: e.groupselectfirst(w.s[0], 'a'),
   lambda e, w: e.groupselectfirst(w.s[0], 'a', buffersize=2)],
  'transform.reductions', temp=True)
R('groupselectlast', 1,
  [lambda e, w: e.groupselectlast(w.s[0], 'a'),
   lambda e, w: e.groupselectlast(w.s[0], 'a', buffersize=2)],
  'transform.reductions', temp=True)
R('groupselectmin', 1,
  [lambda e, w: e.groupselectmin(w.s[0], 'a', 'c'),
   lambda e, w: e.groupselectmin(w.s[0], 'a', 'c', buffersize=2)],
  'transform.reductions', temp=True)
R('groupselectmax', 1,
  [lambda e, w: e.groupselectmax(w.s[0], 'a', 'c'),
   lambda e, w: e.groupselectmax(w.s[0], 'a', 'c', buffersize=2)],
  'transform.reductions', temp=True)
R('groupcountdistinctvalues', 1,
  [lambda e, w: e.groupcountdistinctvalues(w.s[0], 'a', 'b')],
  'transform.reductions', temp=True)

# -- transform.sorts
R('sort', 1,
  [lambda e, w: e.sort(w.s[0], 'a'),
   lambda e, w: e.sort(w.s[0], 'a', buffersize=2),
   lambda e, w: e.sort(w.s[0], 'a', buffersize=1, reverse=True),
   lambda e, w: e.sort(w.s[0], 'a', buffersize=3, cache=False),
   lambda e, w: e.sort(w.s[0], 'a', cache=False),
   lambda e, w: e.sort(w.s[0], key=w.arg(['c', 'a']), buffersize=4),
   lambda e, w: e.sort(w.s[0], 'c', reverse=True),
   lambda e, w: e.sort(w.s[0], 'c', buffersize=100),
   lambda e, w: e.sort(w.s[0]),
   lambda e, w: e.sort(w.s[0], buffersize=2),
   lambda e, w: e.sort(w.s[0], 'a', buffersize=2, tempdir=w.tempdir),
   lambda e, w: e.sort(w.s[0], 'c', buffersize=1, tempdir=w.tempdir,
                       cache=False)],
  'transform.sorts', temp=True)
R('sort-of-sort', 1,
  [lambda e, w: e.sort(_aux(w, e.sort(w.s[0], 'a', buffersize=2)), 'c',
                       buffersize=2),
   lambda e, w: e.sort(_aux(w, e.sort(w.s[0], 'c')), 'a')],
  'transform.sorts', temp=True)
R('mergesort', 2,
  [lambda e, w: e.mergesort(w.s[0], w.s[1], key='a'),
   lambda e, w: e.mergesort(w.s[0], w.s[1], key='a', buffersize=2),
   lambda e, w: e.mergesort(w.s[0], w.s[1], key='c', reverse=True,
                            buffersize=1),
   lambda e, w: e.mergesort(w.s[0], w.s[1], key='a', header=w.arg(
       ['a', 'c']), missing='M')],
  'transform.sorts', temp=True)

# -- io extractors on the simulated byte store / generators / sqlite3
R('fromcsv', 1, [lambda e, w: _from_csv(e, w),
                 lambda e, w: _from_csv(e, w, encoding='utf-8'),
                 lambda e, w: _from_csv(e, w, header=w.arg(['p', 'q']))],
  'io.csv', stream=('bytes', 0), profile='csvsafe')
R('fromtsv', 1, [lambda e, w: _from_tsv(e, w)], 'io.csv',
  stream=('bytes', 0), profile='csvsafe')
R('frompickle', 1, [lambda e, w: _from_pickle(e, w)], 'io.pickle',
  stream=('bytes', 0))
R('fromtext', 1, [lambda e, w: _from_text(e, w),
                  lambda e, w: _from_text(e, w, header=w.arg(['ln']),
                                          strip=' ')], 'io.text',
  stream=('bytes', 0))
def _mem(e, data):
    return e.MemorySource(data)


def _path(w, name, data):
    import os
    p = os.path.join(w.tempdir or '.', name)
    with open(p, 'wb') as f:
        f.write(data)
    return p


def _pickle_bytes(w):
    return b''.join(_pickle.dumps(tuple(r), 2) for r in w.tables[0])


def _big_csv_bytes(w):
    # larger than one 8 KiB read chunk, so that the reader pulls from the
    # source incrementally while other iterators are live
    t = w.tables[0]
    rows = [t[0]] + [r for _ in range(60) for r in t[1:]]
    return _csv_bytes([[c if not isinstance(c, str) else c + 'x' * 40
                        for c in r] for r in rows])


R('frompickle-mem', 1,
  [lambda e, w: e.frompickle(_mem(e, _pickle_bytes(w)))], 'io.pickle')
R('fromcsv-mem', 1,
  [lambda e, w: e.fromcsv(_mem(e, _csv_bytes(w.tables[0]))),
   lambda e, w: e.fromcsv(_mem(e, _big_csv_bytes(w)))], 'io.csv',
  profile='csvsafe')
R('fromtext-mem', 1,
  [lambda e, w: e.fromtext(_mem(e, _big_csv_bytes(w)))], 'io.text',
  profile='csvsafe')
R('fromjson-mem', 1,
  [lambda e, w: e.fromjson(_mem(e, _json.dumps(_dicts_of(
      w.tables[0])).encode()), header=[str(h) for h in w.tables[0][0]])],
  'io.json')
R('fromcsv-path', 1,
  [lambda e, w: e.fromcsv(_path(w, 'f.csv', _csv_bytes(w.tables[0]))),
   lambda e, w: e.fromcsv(_path(w, 'f.csv.gz', __import__('gzip').compress(
       _big_csv_bytes(w)))),
   lambda e, w: e.fromtsv(_path(w, 'f.tsv.bz2', __import__('bz2').compress(
       _csv_bytes(w.tables[0], '\t'))))], 'io.csv', profile='csvsafe')
R('frompickle-path', 1,
  [lambda e, w: e.frompickle(_path(w, 'f.p', _pickle_bytes(w)))],
  'io.pickle')
R('fromjson', 1, [lambda e, w: _from_json(e, w),
                  lambda e, w: _from_json(e, w, lines=True)], 'io.json')
R('fromdicts-gen', 1,
  [lambda e, w: _from_dicts_gen(e, w),
   lambda e, w: _from_dicts_gen(e, w, header=w.arg(['a', 'c', 'zz']),
                                missing='M'),
   lambda e, w: _from_dicts_gen(e, w, sample=2)],
  'io.json', temp=True)
R('fromdicts-list', 1,
  [lambda e, w: _from_dicts_list(e, w),
   lambda e, w: _from_dicts_list(e, w, header=['a', 'zz'], missing='M')],
  'io.json')
R('fromcolumns', 1,
  [lambda e, w: e.fromcolumns(w.arg(_cols(w)[0]), header=_cols(w)[1]),
   lambda e, w: e.fromcolumns(_cols(w)[0], missing='M')], 'io.base')
R('fromdb-conn', 1, [lambda e, w: _from_db_conn(e, w)], 'io.db')
R('fromdb-factory', 1, [lambda e, w: _from_db_factory(e, w)], 'io.db')
R('fromxml', 1, [lambda e, w: _from_xml(e, w)], 'io.xml')


# -- tee views (pass-through; excluded from C01 by the property)
R('teecsv', 1,
  [lambda e, w: e.teecsv(w.s[0], w.store.source('tee.csv')),
   lambda e, w: e.teecsv(w.s[0], w.store.source('tee.csv'),
                         write_header=False, encoding='utf-8')],
  'io.csv', stream=MAP0, c01=False)
R('teetsv', 1, [lambda e, w: e.teetsv(w.s[0], w.store.source('tee.tsv'))],
  'io.csv', stream=MAP0, c01=False)
R('teepickle', 1,
  [lambda e, w: e.teepickle(w.s[0], w.store.source('tee.p'))],
  'io.pickle', stream=MAP0, c01=False)
R('teetext', 1,
  [lambda e, w: e.teetext(w.s[0], w.store.source('tee.txt'),
                          template='{a} {b}\n', prologue='P\n',
                          epilogue='E\n')],
  'io.text', stream=MAP0, c01=False)
R('teehtml', 1,
  [lambda e, w: e.teehtml(w.s[0], w.store.source('tee.html'))],
  'io.html', stream=MAP0, c01=False)


class _Sink(object):
    """Text sink for progress()."""

    def __init__(self):
        self.lines = []

    def write(self, s):
        self.lines.append(s)

    def flush(self):
        pass


NAMES = sorted(RECIPES)


def public_view_constructors(e):
    """Names of public petl callables that return table views and are
    importable here, for the catalogue coverage figure."""
    covered_by = {
        'selecteq': 'selectop', 'selectne': 'selectop', 'selectlt': 'selectop',
        'selectle': 'selectop', 'selectgt': 'selectop', 'selectge': 'selectop',
        'selectin': 'selectop', 'selectnotin': 'selectop',
        'selectcontains': 'selectop', 'selectis': 'selectop',
        'selectisnot': 'selectop', 'selectisinstance': 'selectop',
        'selectrangeopenleft': 'selectop', 'selectrangeopenright': 'selectop',
        'selectrangeopen': 'selectop', 'selectrangeclosed': 'selectop',
        'selecttrue': 'selectop', 'selectfalse': 'selectop',
        'selectnone': 'selectop', 'selectnotnone': 'selectop',
        'fromdicts': 'fromdicts-gen', 'fromdb': 'fromdb-conn',
        'log_progress': 'progress',
    }
    names = '''wrap empty cache randomtable dummytable progress log_progress
    clock valuecounts typecounts parsecounts stringpatterns rowlengths cut
    cutout movefield cat stack addfield addfields rowslice head tail
    skipcomments annex addrownumbers addcolumn addfieldusingcontext rename
    setheader extendheader pushheader skip prefixheader suffixheader
    sortheader convert convertall replace replaceall update convertnumbers
    format formatall interpolate interpolateall filldown fillright fillleft
    fieldmap rowmap rowmapmany rowgroupmap capture split sub search
    searchcomplement splitdown unpack unpackdict melt recast transpose pivot
    unflatten select selectop selecteq selectne selectlt selectle selectgt
    selectge selectin selectnotin selectcontains selectis selectisnot
    selectisinstance selectrangeopenleft selectrangeopenright selectrangeopen
    selectrangeclosed selecttrue selectfalse selectnone selectnotnone
    rowlenselect selectusingcontext biselect facet validate hashjoin
    hashleftjoin hashrightjoin hashantijoin hashlookupjoin join leftjoin
    rightjoin outerjoin crossjoin antijoin lookupjoin unjoin complement
    recordcomplement diff recorddiff intersection hashcomplement
    hashintersection duplicates unique conflicts distinct rowreduce aggregate
    mergeduplicates merge fold groupselectfirst groupselectlast groupselectmin
    groupselectmax groupcountdistinctvalues sort mergesort fromcsv fromtsv
    frompickle fromtext fromjson fromdicts fromcolumns fromdb fromxml
    teecsv teetsv teepickle teetext teehtml
    intervaljoin intervalleftjoin intervalantijoin intervaljoinvalues
    intervalsubtract collapsedintervals fromxls fromxlsx fromarray
    fromdataframe fromhdf5 fromhdf5sorted fromavro frombcolz fromtextindex
    searchtextindex searchtextindexpage fromgsheet'''.split()
    covered, missing = [], []
    for n in names:
        if not hasattr(e, n):
            continue
        r = covered_by.get(n, n)
        (covered if r in RECIPES else missing).append(n)
    return covered, missing


for _r in RECIPES.values():
    if _r.name.startswith('tee'):
        _r.stackable = True
        continue
    if _r.group.startswith('io.') or _r.name in ('facet', 'cache-of-sort',
                                                 'sort-of-sort'):
        _r.stackable = False


# ---------------------------------------------------------------------------
# more argument forms of the same constructors (every documented argument
# with its own branch in the code gets at least one variant)

def V(name, *variants):
    RECIPES[name].variants = list(RECIPES[name].variants) + list(variants)


V('cut',
  lambda e, w: e.cut(w.s[0], 2, 0),
  lambda e, w: e.cut(w.s[0], *range(0, 2)),
  lambda e, w: e.cut(w.s[0], 'b'))
V('cutout', lambda e, w: e.cutout(w.s[0], 0),
  lambda e, w: e.cutout(w.s[0], 'c', 'b', 'a'))
V('movefield', lambda e, w: e.movefield(w.s[0], 'b', 0),
  lambda e, w: e.movefield(w.s[0], 'a', 1))
V('cat', lambda e, w: e.cat(w.s[0]),
  lambda e, w: e.cat(w.s[0], w.s[1], w.s[0], missing=0),
  lambda e, w: e.cat(w.s[1], w.s[0], header=['b', 'a']))
V('stack', lambda e, w: e.stack(w.s[0], w.s[1], w.s[0]),
  lambda e, w: e.stack(w.s[0]))
V('addfield', lambda e, w: e.addfield(w.s[0], 'z', None),
  lambda e, w: e.addfield(w.s[0], 'z', 'const', index=100),
  lambda e, w: e.addfield(w.s[0], 'z', f_rec_a, index=-1))
V('addfields',
  lambda e, w: e.addfields(w.s[0], [('y', f_rec_a, 0)], missing='M'))
V('rowslice', lambda e, w: e.rowslice(w.s[0], 0),
  lambda e, w: e.rowslice(w.s[0], 3, None),
  lambda e, w: e.rowslice(w.s[0], None, None, 3))
V('head', lambda e, w: e.head(w.s[0], 1), lambda e, w: e.head(w.s[0], 100))
V('tail', lambda e, w: e.tail(w.s[0], 0), lambda e, w: e.tail(w.s[0], 100),
  lambda e, w: e.tail(w.s[0], 1))
V('annex', lambda e, w: e.annex(w.s[0]))
V('addrownumbers', lambda e, w: e.addrownumbers(w.s[0], start=0, step=-1))
V('addcolumn', lambda e, w: e.addcolumn(w.s[0], 'z', []),
  lambda e, w: e.addcolumn(w.s[0], 'z', (1, 2, 3), index=0))
V('rename', lambda e, w: e.rename(w.s[0], 0, 'first'),
  lambda e, w: e.rename(w.s[0], {0: 'first', 'b': 'second'}))
V('setheader', lambda e, w: e.setheader(w.s[0], ['only']),
  lambda e, w: e.setheader(w.s[0], ['p', 'q', 'r', 's', 't', 'u', 'v']))
V('pushheader', lambda e, w: e.pushheader(w.s[0], ['only']),
  # (a list header AND further names: the names are documented as ignored)
  lambda e, w: e.pushheader(w.s[0], w.arg(['p', 'q', 'r', 's', 't']), 'u'),
  lambda e, w: e.pushheader(w.s[0], w.arg(('p', 'q', 'r', 's', 't'))))
V('skip', lambda e, w: e.skip(w.s[0], 0))
V('sortheader', lambda e, w: e.sortheader(w.s[0]))
V('convert',
  lambda e, w: e.convert(w.s[0], 'b', 'replace', 'x', 'Q'),
  lambda e, w: e.convert(w.s[0], 'b', ('replace', 'x', 'Q')),
  lambda e, w: e.convert(w.s[0], 0, f_inc),
  lambda e, w: e.convert(w.s[0], 'c', f_inc, where="{a} == 1"),
  lambda e, w: e.convert(w.s[0], 'b', 'upper', failonerror='inline'),
  lambda e, w: e.convert(w.s[0], 'b', 'upper', failonerror=False,
                         errorvalue='ERR'),
  lambda e, w: e.convert(w.s[0], [f_inc, f_upper]),
  lambda e, w: e.convert(w.s[0]))
V('convertall', lambda e, w: e.convertall(w.s[0], 'upper', failonerror=False),
  lambda e, w: e.convertall(w.s[0], f_str, where=f_pred_a))
V('replace', lambda e, w: e.replace(w.s[0], 'a', None, 0))
V('update', lambda e, w: e.update(w.s[0], 0, 'Z'))
V('convertnumbers', lambda e, w: e.convertnumbers(w.s[0], strict=True,
                                                  failonerror=False))
V('filldown', lambda e, w: e.filldown(w.s[0], 'a', missing=0))
V('fieldmap',
  lambda e, w: e.fieldmap(w.s[0], {'A': 0, 'expr': '{c} * 2'},
                          failonerror=False),
  lambda e, w: e.fieldmap(w.s[0]))
V('rowmapmany',
  lambda e, w: e.rowmapmany(w.s[0], f_rowgen, header=['k', 'w'],
                            failonerror='inline'))
V('melt', lambda e, w: e.melt(w.s[0], 'a', variablefield='var',
                              valuefield='val'),
  lambda e, w: e.melt(w.s[0], variables=['b', 'c']),
  lambda e, w: e.melt(w.s[0], key=['a', 'b', 'c']),
  # (no key fields at all: every field is a variable)
  lambda e, w: e.melt(w.s[0], key=w.arg([])))
V('recast',
  # (the dict form of variablefield, names not in sorted order)
  lambda e, w: e.recast(e.melt(w.s[0], 'a', variables=['b', 'c']),
                        variablefield=w.arg({'variable': ['c', 'b']})),
  lambda e, w: e.recast(e.melt(w.s[0], ['a', 'b'], variables=['c']),
                        key='a'),
  lambda e, w: e.recast(e.melt(w.s[0], 'a', variables=['b', 'c']),
                        samplesize=1),
  lambda e, w: e.recast(e.melt(w.s[0], 'a', variables=['b', 'c'],
                               variablefield='var', valuefield='val'),
                        variablefield='var', valuefield='val'))
V('pivot', lambda e, w: e.pivot(w.s[0], 'b', 'a', 'c', sum))
V('unflatten', lambda e, w: e.unflatten(e.values(w.s[0], 'c'), 1),
  lambda e, w: e.unflatten(w.s[0], 'b', 2))
V('capture',
  # (a list of fill values shorter than the number of groups)
  lambda e, w: e.capture(w.s[0], 'e', r'(\d)(x)?(y)?', ['n', 'm', 'o'],
                         fill=w.arg(['?'])))
V('capture',
  # (no fill: a value that does not match is an error)
  lambda e, w: e.capture(w.s[0], 'e', r'(\d)', ['n']),
  lambda e, w: e.capture(w.s[0], 'e', r'(\d)', ['n'], fill=['-']),
  lambda e, w: e.capture(w.s[0], 'b', '(x)(Y)?', flags=re.I, fill=[0, 0]))
V('split', lambda e, w: e.split(w.s[0], 'e', ' '),
  lambda e, w: e.split(w.s[0], 'b', 'X', ['p', 'q'], flags=re.I))
V('sub', lambda e, w: e.sub(w.s[0], 'b', 'X', 'q', flags=re.I))
V('search', lambda e, w: e.search(w.s[0], 'e', r'\d{2}'),
  lambda e, w: e.search(w.s[0], 'b', 'X', flags=re.I))
V('splitdown', lambda e, w: e.splitdown(w.s[0], 'e', ' ', maxsplit=1))
V('select', lambda e, w: e.select(w.s[0], lambda rec: rec[0] is None),
  lambda e, w: e.select(w.s[0], 'd', lambda v: v, complement=True),
  lambda e, w: e.select(w.s[0], "{a} is None or {c} < 3"))
V('rowlenselect', lambda e, w: e.rowlenselect(w.s[0], 0))
V('biselect', lambda e, w: e.biselect(w.s[0], 'c', f_pred_c))
V('hashjoin', lambda e, w: e.hashjoin(w.s[0], w.s[1], key=('a',)),
  lambda e, w: e.hashjoin(w.s[0], w.s[1], lkey=['a', 'b'],
                          rkey=['a', 'b'], cache=False))
V('hashleftjoin',
  lambda e, w: e.hashleftjoin(w.s[0], w.s[1], lkey='a', rkey='c',
                              lprefix='l.', rprefix='r.'))
V('hashrightjoin',
  lambda e, w: e.hashrightjoin(w.s[1], w.s[0], lkey='c', rkey='a',
                               missing=0))
V('hashlookupjoin',
  lambda e, w: e.hashlookupjoin(w.s[0], w.s[1], lkey='a', rkey='c',
                                rprefix='r_'))
V('join', lambda e, w: e.join(w.s[0], w.s[1], key=['a', 'b']),
  lambda e, w: e.join(w.s[0], w.s[1], key='a', presorted=False,
                      tempdir=w.tempdir, buffersize=1))
V('leftjoin', lambda e, w: e.leftjoin(w.s[0], w.s[1], lkey='a', rkey='c',
                                      lprefix='l', rprefix='r'))
V('rightjoin', lambda e, w: e.rightjoin(w.s[0], w.s[1], key='a',
                                        missing='M'))
V('outerjoin', lambda e, w: e.outerjoin(w.s[0], w.s[1], key=['a', 'b'],
                                        missing=0))
V('crossjoin', lambda e, w: e.crossjoin(w.s[0], w.s[1], w.s[0]),
  lambda e, w: e.crossjoin(w.s[0]))
V('antijoin', lambda e, w: e.antijoin(w.s[0], w.s[1], lkey='a', rkey='c'))
V('lookupjoin', lambda e, w: e.lookupjoin(w.s[0], w.s[1], key='a',
                                          missing='M', rprefix='r_'))
V('unjoin', lambda e, w: e.unjoin(w.s[0], 'b', autoincrement=(10, 5)),
  lambda e, w: e.unjoin(w.s[0], 'b', presorted=True),
  lambda e, w: e.unjoin(w.s[0], 'b', key='a', presorted=True))
V('complement', lambda e, w: e.complement(w.s[0], w.s[0]))
V('intersection', lambda e, w: e.intersection(w.s[0], w.s[0]))
V('diff', lambda e, w: e.diff(w.s[0], w.s[1], strict=True))
V('recorddiff', lambda e, w: e.recorddiff(w.s[0], w.s[1], strict=True))
V('duplicates', lambda e, w: e.duplicates(w.s[0], key=['a', 'b']))
V('unique', lambda e, w: e.unique(w.s[0]))
V('conflicts',
  # (the fields to leave out given as a list of the caller's)
  lambda e, w: e.conflicts(w.s[0], 'a', exclude=w.arg(['b'])),
  lambda e, w: e.conflicts(w.s[0], 'a', missing='', include=['b', 'c']),
  lambda e, w: e.conflicts(w.s[0], ['a', 'b']))
V('distinct', lambda e, w: e.distinct(w.s[0], key=['a', 'b'], count='n'))
V('aggregate',
  lambda e, w: e.aggregate(w.s[0], 'a', list, 'c', field='cs'),
  lambda e, w: e.aggregate(w.s[0], 'a', [('n', len), ('m', 'c', max)]
                           if False else {'n': len}))
V('mergeduplicates', lambda e, w: e.mergeduplicates(w.s[0], ['a', 'b']))
V('merge', lambda e, w: e.merge(w.s[0], w.s[1], key='a', missing='M'))
V('fold', lambda e, w: e.fold(w.s[0], ['a', 'b'], f_fold, value='c'))
V('groupselectfirst', lambda e, w: e.groupselectfirst(w.s[0], ['a', 'b']))
V('groupselectmin', lambda e, w: e.groupselectmin(w.s[0], 'b', 'c'))
V('sort', lambda e, w: e.sort(w.s[0], 0),
  lambda e, w: e.sort(w.s[0], ('a', 'c'), reverse=True, buffersize=2),
  lambda e, w: e.sort(w.s[0], reverse=True))


# key values of one type that has no order of its own (dicts, complex
# numbers): they tie, and ties keep their input order on every pass
def f_as_dict(v):
    return {'k': v}


def f_as_complex(v):
    return complex(len(str(v)), 1)


V('sort',
  lambda e, w: e.sort(e.convert(w.s[0], 'c', f_as_dict), 'c'),
  lambda e, w: e.sort(e.convert(w.s[0], 'b', f_as_complex), ('b', 'c'),
                      buffersize=2),
  lambda e, w: e.sort(e.convert(w.s[0], 'a', f_as_dict), 'a', buffersize=2,
                      cache=False))
# (the documented way to fix the order of the aggregated fields; entries in
# their short forms: a bare function, a bare field name, a 1-tuple)
V('aggregate',
  lambda e, w: e.aggregate(w.s[0], 'a', w.arg(collections.OrderedDict(
      [('n', len), ('cs', 'c'), ('m', (len,))]))))
V('mergesort',
  lambda e, w: e.mergesort(w.s[0], w.s[1], w.s[0], key='a'),
  lambda e, w: e.mergesort(w.s[0], key='c'),
  lambda e, w: e.mergesort(w.s[0], w.s[1], key=['a', 'c'], buffersize=3,
                           cache=False, tempdir=w.tempdir))
V('fromcsv',
  lambda e, w: _from_csv(e, w, encoding='latin-1', errors='replace'),
  lambda e, w: e.fromcsv(_put(w, 'g.csv', _csv_bytes(w.tables[0], ';')),
                         delimiter=';'))
V('fromtext', lambda e, w: _from_text(e, w, strip=False),
  lambda e, w: _from_text(e, w, encoding='utf-8', errors='replace'))
V('fromdicts-gen',
  lambda e, w: _from_dicts_gen(e, w, closefault=True, header=['a', 'c']),
  lambda e, w: _from_dicts_gen(e, w, closefault=True))
V('fromdicts-gen', lambda e, w: _from_dicts_gen(e, w, sample=1),
  lambda e, w: _from_dicts_gen(e, w, header=['c'], sample=3))
V('fromdicts-list', lambda e, w: _from_dicts_list(e, w, sample=1))
V('fromcolumns', lambda e, w: e.fromcolumns([[1, 2, 3], ['a', 'b']],
                                            header=['n', 's'], missing=0))
V('valuecounts', lambda e, w: e.valuecounts(w.s[0], 'a', missing='M'))
V('randomtable', lambda e, w: e.randomtable(4, 3, seed=0, wait=0),
  lambda e, w: e.randomtable(3, 5),
  lambda e, w: e.randomtable(2, 4, wait=0.5),
  lambda e, w: e.randomtable(2, 6, wait=2, seed='s'))
V('dummytable', lambda e, w: e.dummytable(5),
  lambda e, w: e.dummytable(4, wait=1, seed=3),
  lambda e, w: e.dummytable(6, fields=[('x', _randint09), ('y', _rnd)],
                            seed=11),
  lambda e, w: e.dummytable(3, fields=[('only', _rnd)], wait=0.25))
V('values', lambda e, w: e.values(w.s[0], 0))
V('data', lambda e, w: e.data(w.s[0], 0, 6))
V('dicts', lambda e, w: e.dicts(w.s[0], 0, 3))
V('records', lambda e, w: e.records(w.s[0], 2, missing='M'))
V('namedtuples', lambda e, w: e.namedtuples(w.s[0], 0, 2))


# secondary inputs that are themselves lazy petl views
V('annex', lambda e, w: e.annex(w.s[0], e.convert(w.s[1], 'c', f_inc)))
V('cat', lambda e, w: e.cat(e.cut(w.s[0], 'a', 'b'), e.cutout(w.s[1], 'a')))
V('stack', lambda e, w: e.stack(e.rename(w.s[0], 'a', 'A'),
                                e.convert(w.s[1], 'b', f_upper)))
V('hashleftjoin',
  lambda e, w: e.hashleftjoin(e.convert(w.s[0], 'b', f_upper),
                              e.addfield(w.s[1], 'z', 1), key='a'))
V('hashlookupjoin',
  lambda e, w: e.hashlookupjoin(e.wrap(w.s[0]), e.cut(w.s[1], 'a', 'c'),
                                key='a'))
V('selectop',
  lambda e, w: e.selecteq(w.s[0], 'a', 1, complement=True),
  lambda e, w: e.selectin(w.s[0], 'a', (1, 2), complement=True),
  lambda e, w: e.selectnone(w.s[0], 'a', complement=True),
  lambda e, w: e.selectrangeclosed(w.s[0], 'a', 0, 2, complement=True),
  lambda e, w: e.selectcontains(w.s[0], 'b', 'x', complement=True),
  lambda e, w: e.selecttrue(w.s[0], 'a', complement=True),
  lambda e, w: e.selectisinstance(w.s[0], 'd', (str, int), complement=True))
# aggregation functions that keep what they are given (the group's rows, the
# group's values): what they return becomes a cell of the output
V('aggregate',
  lambda e, w: e.aggregate(w.s[0], 'a', {'rows': f_keep, 'n': len}),
  lambda e, w: e.aggregate(w.s[0], 'a', {'vals': ('c', f_keep)}),
  lambda e, w: e.aggregate(w.s[0], 'a', f_keep),
  lambda e, w: e.aggregate(w.s[0], 'a', f_keep, 'c'))
# the two-argument form of unflatten on a plain, mutable list of values
V('unflatten',
  lambda e, w: e.unflatten(w.arg(['p', 1, 'q', 2, 'r']), 2),
  lambda e, w: e.unflatten(w.arg([1, 2, 3, 4, 5, 6, 7]), 3, missing=0))
# cat with the documented header= argument naming the source's own fields
V('cat', lambda e, w: e.cat(w.s[0], header=list(w.tables[0][0])),
  lambda e, w: e.cat(w.s[0], w.s[1], header=list(w.tables[0][0]),
                     missing=0))
# the three error policies, spelled out
V('rowmapmany',
  lambda e, w: e.rowmapmany(w.s[0], f_rowgen, header=['k', 'w'],
                            failonerror=True),
  lambda e, w: e.rowmapmany(w.s[0], f_rowgen, header=['k', 'w'],
                            failonerror='inline'),
  lambda e, w: e.rowmapmany(w.s[0], f_rowgen, header=['k', 'w'],
                            failonerror=False))
V('rowmap',
  lambda e, w: e.rowmap(w.s[0], f_rowmapper, header=['k', 'n'],
                        failonerror=True),
  lambda e, w: e.rowmap(w.s[0], f_rowmapper, header=['k', 'n'],
                        failonerror='inline'))
V('fieldmap',
  lambda e, w: e.fieldmap(w.s[0], {'A': 'a', 'n': f_rec_a},
                          failonerror=True),
  lambda e, w: e.fieldmap(w.s[0], {'A': 'a', 'n': f_rec_a},
                          failonerror='inline', errorvalue=0))
V('convert',
  lambda e, w: e.convert(w.s[0], 'c', f_inc, failonerror=True),
  lambda e, w: e.convert(w.s[0], 'c', f_inc, failonerror='inline'),
  lambda e, w: e.convert(w.s[0], ('a', 'c'), f_inc, failonerror=False,
                         errorvalue=-1))


# (the documented incremental style: mappings / converters assigned to the
# view one at a time; still part of building the pipeline)
def _assign(view, *items):
    for k, v in items:
        view[k] = v
    return view


V('fieldmap',
  lambda e, w: _assign(e.fieldmap(w.s[0]), ('A', 'a'), ('expr', '{c} * 2'),
                       ('B', ('b', f_upper)), ('n', f_rec_a)),
  lambda e, w: _assign(e.fieldmap(w.s[0], failonerror=False),
                       ('expr', '{c} + {a}'), ('A', 'a')))
V('convert',
  lambda e, w: _assign(e.convert(w.s[0]), ('c', f_inc), ('b', f_upper)),
  lambda e, w: _assign(e.convert(w.s[0], failonerror=False),
                       ('b', 'upper'), ('a', {1: 'one'})))
# (the function form, called on the source as it is)
V('cache', lambda e, w: _cache(e)(w.s[0]),
  lambda e, w: _cache(e)(w.s[0], n=3),
  lambda e, w: _cache(e)(w.s[0], n=None))
V('hashcomplement',
  lambda e, w: e.hashcomplement(e.wrap(w.s[0]), e.wrap(w.s[1])))


# -- sort-backed operators told that their inputs are presorted: no sort, so
# they stream (merge / group the inputs as they come)
R('presorted-setops', 2,
  [lambda e, w: e.complement(w.s[0], w.s[1], presorted=True),
   lambda e, w: e.intersection(w.s[0], w.s[1], presorted=True),
   lambda e, w: e.diff(w.s[0], w.s[1], presorted=True)[0],
   lambda e, w: e.diff(w.s[0], w.s[1], presorted=True)[1],
   lambda e, w: e.complement(w.s[0], w.s[1], presorted=True, strict=True)],
  'transform.setops', stream=FIL0, rect=True, profile='sorted')
R('presorted-joins', 2,
  [lambda e, w: e.join(w.s[0], w.s[1], key='a', presorted=True),
   lambda e, w: e.leftjoin(w.s[0], w.s[1], key='a', presorted=True),
   lambda e, w: e.antijoin(w.s[0], w.s[1], key='a', presorted=True),
   lambda e, w: e.lookupjoin(w.s[0], w.s[1], key='a', presorted=True),
   lambda e, w: e.mergesort(w.s[0], w.s[1], key='a', presorted=True),
   lambda e, w: e.rightjoin(w.s[0], w.s[1], key='a', presorted=True),
   lambda e, w: e.outerjoin(w.s[0], w.s[1], key='a', presorted=True,
                            lprefix='l_', rprefix='r_'),
   lambda e, w: e.join(w.s[0], w.s[1], lkey='a', rkey='a', presorted=True),
   lambda e, w: e.mergesort(w.s[0], w.s[1], presorted=True)],
  'transform.joins', stream=FIL0, profile='sorted')
R('presorted-groups', 1,
  [lambda e, w: e.duplicates(w.s[0], 'a', presorted=True),
   lambda e, w: e.unique(w.s[0], 'a', presorted=True),
   lambda e, w: e.distinct(w.s[0], 'a', presorted=True),
   lambda e, w: e.conflicts(w.s[0], 'a', presorted=True),
   lambda e, w: e.rowreduce(w.s[0], 'a', f_reducer, header=['k', 'n'],
                            presorted=True),
   lambda e, w: e.aggregate(w.s[0], 'a', _count, 'c', presorted=True),
   lambda e, w: e.aggregate(w.s[0], 'a', {'n': len}, presorted=True),
   lambda e, w: e.fold(w.s[0], 'a', f_fold, value='c', presorted=True),
   lambda e, w: e.groupselectfirst(w.s[0], 'a', presorted=True),
   lambda e, w: e.groupselectlast(w.s[0], 'a', presorted=True),
   lambda e, w: e.mergeduplicates(w.s[0], 'a', presorted=True),
   lambda e, w: e.rowgroupmap(w.s[0], 'a', f_groupmapper, header=['k', 'n'],
                              presorted=True),
   lambda e, w: e.distinct(w.s[0], 'a', count='n', presorted=True),
   lambda e, w: e.distinct(w.s[0], presorted=True),
   lambda e, w: e.distinct(w.s[0], count='n', presorted=True),
   lambda e, w: e.duplicates(w.s[0], presorted=True),
   lambda e, w: e.unique(w.s[0], presorted=True),
   lambda e, w: e.conflicts(w.s[0], 'a', presorted=True, missing=0,
                            include='c'),
   lambda e, w: e.aggregate(w.s[0], 'a', presorted=True),
   lambda e, w: e.aggregate(w.s[0], ('a', 'd'), list, 'c', presorted=True),
   lambda e, w: e.mergeduplicates(w.s[0], ('a', 'd'), presorted=True)],
  'transform.reductions', stream=FIL0, profile='sorted')
# a merge that can produce nothing more once its second input has ended: the
# second source is short (it is not scaled with the first one), so consumers
# that ask for more rows than there are matches see how the operator behaves
# after that input is exhausted - it must not read on through the first one
R('presorted-merge-short', 2,
  [lambda e, w: e.intersection(w.s[0], w.s[1], presorted=True),
   lambda e, w: e.join(w.s[0], w.s[1], key='a', presorted=True),
   lambda e, w: e.join(w.s[0], w.s[1], key=('a', 'b'), presorted=True)],
  'transform.setops', stream=FIL0, build=(1,), profile='sorted', rect=True)
RECIPES['presorted-merge-short'].stops_with = 1
RECIPES['presorted-merge-short'].stackable = False
# groups whose size grows with the table (4 groups whatever the length): a
# group mapper that reads its group lazily streams, one row in - one row out
R('presorted-biggroups', 1,
  [lambda e, w: e.rowgroupmap(w.s[0], 'a', f_groupmapper, header=['k', 'n'],
                              presorted=True)],
  'transform.maps', stream=('map', 2), profile='biggroups')
RECIPES['presorted-biggroups'].stackable = False
# (presorted accepted, but the whole input is read before the first row)
R('presorted-other', 1,
  [lambda e, w: e.pivot(w.s[0], 'a', 'd', 'c', sum, presorted=True),
   lambda e, w: e.groupselectmin(w.s[0], 'a', 'c', presorted=True),
   lambda e, w: e.groupselectmax(w.s[0], 'a', 'c', presorted=True)],
  'transform.reductions', profile='sorted', temp=True)
for _n in ('presorted-setops', 'presorted-joins', 'presorted-groups',
           'presorted-other'):
    RECIPES[_n].stackable = False
NAMES = sorted(RECIPES)


def yields_conflicts(name, vi):
    """Variants built on merge()/mergeduplicates(): they deliver Conflict
    (frozenset) cells, whose text form depends on the interpreter's hash
    seed; nothing that renders cells as text is stacked on them."""
    names = RECIPES[name].variants[vi].__code__.co_names
    return 'mergeduplicates' in names or 'merge' in names


def cut_after_conflicts(stack):
    """Drops (in place) whatever is stacked on a stage that yields Conflict
    cells; returns True when such a stage is in the stack."""
    for i, (n, vi) in enumerate(stack):
        if yields_conflicts(n, vi):
            del stack[i + 1:]
            return True
    return False
