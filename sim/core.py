"""Driver: seeded case generation, parallel execution, violation triage
(known findings, minimisation, replay files), evidence.

A check module provides:
    PROP, LEVEL, RULE, COMPONENTS (dict real/stub), ASSUMPTIONS (list)
    budget(tier)            -> {'cases': N, 'wall_cap_s': S}
    gen_case(rng, tier, g)  -> JSON-safe dict (complete before execution)
    run_case(case)          -> outcome dict (see `outcome`)
    shrink_candidates(case) -> iterable of simpler cases       (optional)
    selfcheck(agg)          -> list of error strings           (optional)

Exit protocol: 0 held (possibly KNOWN-FINDING lines), 1 VIOLATION, 3 harness
error.
"""
import copy
import faulthandler
import gc
import hashlib
import importlib
import inspect
import json
import multiprocessing
import os
import random
import shutil
import signal
import sys
import time
import traceback
from concurrent.futures import ProcessPoolExecutor

from . import devices

VERIF = os.path.dirname(os.path.dirname(os.path.abspath(__file__)))
DEFAULT_SEED = 20261003


# ---------------------------------------------------------------------------
# seeds

def case_rng(seed, prop, g):
    h = hashlib.sha256(('%d/%s/%d' % (seed, prop, g)).encode()).hexdigest()
    return random.Random(int(h, 16))


def outcome(status='ok', vclass=None, msg=None, sig=None, digest=None,
            steps=0, probes=None, fired=None, states=None, nontrivial=True,
            sim_seconds=0.0, extra=None):
    return {'status': status, 'vclass': vclass, 'msg': msg, 'sig': sig or {},
            'digest': digest, 'steps': steps, 'probes': probes or {},
            'fired': fired or {}, 'states': states or [],
            'nontrivial': nontrivial, 'sim_seconds': sim_seconds,
            'extra': extra or {}}


def case_key(case):
    c = dict(case)
    c.pop('g', None)
    return hashlib.sha256(json.dumps(c, sort_keys=True).encode()).digest()[:12]


_VERIF_DIR = os.path.dirname(os.path.dirname(os.path.abspath(__file__)))
_USER_CODE = (os.path.join(_VERIF_DIR, 'sim', 'catalogue.py'),
              os.path.join(_VERIF_DIR, 'sim', 'devices.py'))


def not_a_harness_bug(ex):
    """Checks call this before they write a case off because the code under
    test raised ("inapplicable", "trivial"): an exception whose innermost
    frame is harness code - a NameError or TypeError of the check itself -
    must stop the run as a harness error instead of quietly turning cases
    trivial.  (sim/catalogue.py holds the user callbacks handed to petl and
    sim/devices.py the simulated sources: failures raised there are the
    application's, not the harness's.)"""
    tb = ex.__traceback__
    last = None
    while tb is not None:
        last = tb
        tb = tb.tb_next
    if last is None:
        return ex
    raw = last.tb_frame.f_code.co_filename
    fn = os.path.abspath(raw)
    if not raw.startswith('<') and fn.startswith(_VERIF_DIR + os.sep) and fn not in _USER_CODE \
            and isinstance(ex, (NameError, TypeError, AttributeError,
                                KeyError, IndexError, UnboundLocalError,
                                AssertionError)):
        raise RuntimeError('harness bug in %s line %d: %s: %s'
                           % (fn, last.tb_lineno, type(ex).__name__, ex)) \
            from ex
    return ex


class CaseTimeout(BaseException):
    """Not an Exception: the `except Exception` handlers of the checks (and
    of petl) must not take a watchdog for a failure of the code under test."""


def _alarm(signum, frame):
    raise CaseTimeout('case exceeded its allowance of processor time')


def _unraisable(u):
    # exceptions escaping from finalisers (__del__) end up here
    if isinstance(u.exc_value, devices.SimCloseFault) and \
            inspect.isgenerator(u.object):
        # the simulated source's own complaint, raised when the interpreter
        # finalises the generator: not the code under test's
        devices.CTX.fire('source-close-fault')
        return
    devices.CTX.unraisable.append(
        '%s: %s in %r' % (type(u.exc_value).__name__, u.exc_value, u.object))


CONFIG_VALUES = {'repr': repr, 'str': str}


def draw_config(rng, p=0.2, exclude=()):
    """A random perturbation of petl.config attributes that must not change
    any result a check looks at (the ones a check does look at are passed in
    `exclude`).  JSON-safe: callables by name."""
    if rng.random() >= p:
        return None
    pool = {'display_vrepr': ['repr'], 'display_limit': [1, 3],
            'display_index_header': [True], 'look_vrepr': ['str'],
            'look_limit': [2, 7], 'look_index_header': [True],
            'look_style': ['simple', 'minimal'], 'see_limit': [2],
            'see_vrepr': ['str'], 'see_index_header': [True],
            'failonerror': [True, 'inline'], 'sort_buffersize': [2, 3, None]}
    names = [n for n in sorted(pool) if n not in exclude]
    out = {}
    for n in rng.sample(names, rng.choice([1, 2, 3])):
        out[n] = rng.choice(pool[n])
    if rng.random() < 0.4:
        out['_debug_logging'] = True
    return out


class _FormattingHandler(object):
    pass


def _debug_logging(on):
    """petl logs through the logging module; with DEBUG enabled and a handler
    that formats the records, every argument of a debug() call is rendered
    (repr of a table evaluates it!).  A realistic configuration: petl's own
    pytest.ini runs with log_level=DEBUG."""
    import logging
    lg = logging.getLogger('petl')
    if on:
        class H(logging.Handler):
            def emit(self, record):
                record.getMessage()
        h = H()
        h.setLevel(logging.DEBUG)
        lg.addHandler(h)
        lg.setLevel(logging.DEBUG)
        return h
    return None


class applied_config(object):
    def __init__(self, cfg):
        self.cfg = dict(cfg or {})
        self.saved = {}
        self.handler = None
        self.debuglog = self.cfg.pop('_debug_logging', False)

    def __enter__(self):
        if self.debuglog:
            self.handler = _debug_logging(True)
        if self.cfg:
            import petl.config as config
            for k, v in self.cfg.items():
                self.saved[k] = getattr(config, k)
                setattr(config, k, CONFIG_VALUES.get(v, v)
                        if isinstance(v, str) and k.endswith('vrepr') else v)
        return self

    def __exit__(self, *a):
        if self.handler is not None:
            import logging
            lg = logging.getLogger('petl')
            lg.removeHandler(self.handler)
            lg.setLevel(logging.ERROR)
        if self.saved:
            import petl.config as config
            for k, v in self.saved.items():
                setattr(config, k, v)
        return False


_IN_FORK = [False]


def _run_in_fork(mod, case, allowance, prelude=None):
    """The case runs in a forked child of this process (petl imported before
    the fork, as under multiprocessing's fork start method); the outcome comes
    back through a pipe.  `prelude`: cases run in the child first, in order
    (state that the code under test carries from one use to the next)."""
    import pickle
    r, w = os.pipe()
    pid = os.fork()
    if pid == 0:
        code = 0
        try:
            os.close(r)
            _IN_FORK[0] = True
            for c in prelude or ():
                run_guarded(mod, c, allowance)
            out = run_guarded(mod, case, allowance)
            with os.fdopen(w, 'wb') as f:
                f.write(pickle.dumps(out))
        except BaseException:
            code = 1
        finally:
            os._exit(code)
    os.close(w)
    with os.fdopen(r, 'rb') as f:
        data = f.read()
    os.waitpid(pid, 0)
    if not data:
        raise RuntimeError('forked case runner died without an outcome')
    out = pickle.loads(data)
    out['probes']['ran-in-forked-child'] = 1
    return out


_SUBPROCESS_CHILD = r'''
import importlib, json, pickle, sys
sys.path.insert(0, %(verif)r)
from sim import core
core._IN_SUBPROCESS[0] = True
mod = importlib.import_module(%(modname)r)
case = json.load(open(%(casefile)r))
out = core.run_guarded(mod, case, %(allowance)d)
pickle.dump(out, open(%(outfile)r, 'wb'))
'''
_IN_SUBPROCESS = [False]


def _run_in_interpreter(mod, case, allowance):
    """The case runs in a fresh interpreter started with the environment
    the case asks for (case['interp_env']: a locale, PYTHONUTF8...): host
    settings that are fixed when an interpreter starts."""
    import pickle
    import subprocess
    import tempfile
    d = tempfile.mkdtemp(prefix='petl-verif-interp-',
                         dir=devices.scratch_root())
    try:
        casefile = os.path.join(d, 'case.json')
        outfile = os.path.join(d, 'out.pickle')
        with open(casefile, 'w') as f:
            json.dump(case, f)
        env = dict(os.environ, PYTHONHASHSEED='0',
                   PYTHONDONTWRITEBYTECODE='1')
        env.update(case['interp_env'])
        p = subprocess.run(
            [sys.executable, '-c', _SUBPROCESS_CHILD % {
                'verif': _VERIF_DIR, 'modname': mod.__name__,
                'casefile': casefile, 'outfile': outfile,
                'allowance': allowance}],
            env=env, stdout=subprocess.PIPE, stderr=subprocess.STDOUT,
            text=True, errors='replace', timeout=allowance * 10 + 60)
        if not os.path.exists(outfile):
            raise RuntimeError('case interpreter failed (exit %d): %s'
                               % (p.returncode, p.stdout[-800:]))
        with open(outfile, 'rb') as f:
            out = pickle.load(f)
        out['probes']['ran-in-own-interpreter'] = 1
        return out
    finally:
        shutil.rmtree(d, ignore_errors=True)


def run_isolated(mod, case, allowance=30):
    """run_guarded in a forked child of this process."""
    if _IN_FORK[0]:
        return run_guarded(mod, case, allowance)
    from .loader import load_petl
    load_petl()
    return _run_in_fork(mod, case, allowance)


def run_guarded(mod, case, allowance=30):
    """Run one case; harness exceptions are kept apart from violations."""
    if case.get('interp_env') and not _IN_SUBPROCESS[0]:
        return _run_in_interpreter(mod, case, allowance)
    if case.get('forked') and not _IN_FORK[0]:
        return _run_in_fork(mod, case, allowance)
    # (the tree under test must be the first petl this process imports)
    from .loader import load_petl
    load_petl()
    # the allowance is processor time of this process (ITIMER_PROF), not wall
    # clock: a loaded machine must not turn a slow case into a verdict.  The
    # wall-clock backstop is ten times as long (a case blocked without using
    # the processor); beyond that, faulthandler ends the worker.
    signal.signal(signal.SIGPROF, _alarm)
    signal.signal(signal.SIGALRM, _alarm)
    signal.setitimer(signal.ITIMER_PROF, allowance)
    signal.alarm(allowance * 10)
    devices.CTX.fired = {}
    devices.CTX.slept_ms = 0
    devices.CTX.task = 'ctor'
    devices.CTX.unraisable = []
    sys.unraisablehook = _unraisable
    try:
        with applied_config(case.get('config')):
            out = mod.run_case(case)
    except CaseTimeout:
        out = outcome('hang', vclass='hang', msg='case did not finish in %ds'
                      % allowance, sig={'vclass': 'hang'})
    finally:
        signal.setitimer(signal.ITIMER_PROF, 0)
        signal.alarm(0)
    if devices.CTX.unraisable:
        out['probes']['unraisable-in-finaliser'] = len(devices.CTX.unraisable)
        out['extra']['unraisable'] = devices.CTX.unraisable[:3]
    if devices.CTX.slept_ms and not out.get('sim_seconds'):
        out['sim_seconds'] = devices.CTX.slept_ms / 1000.0
    # faults counted by the devices
    for k, v in devices.CTX.fired.items():
        out['fired'][k] = out['fired'].get(k, 0) + v
    return out


# ---------------------------------------------------------------------------
# worker

def _work(args):
    modname, tier, seed, w, nworkers, ncases, deadline = args
    faulthandler.enable()
    try:
        os.sched_setaffinity(0, os.sched_getaffinity(0))
    except Exception:
        pass
    mod = importlib.import_module(modname)
    if hasattr(mod, 'warmup'):
        mod.warmup()
    # everything imported so far is permanent: keeps gc.collect() cheap
    gc.collect()
    gc.freeze()
    agg = {'evaluations': 0, 'trivial': 0, 'keys': set(), 'probes': {},
           'fired': {}, 'states': set(), 'steps': 0, 'violations': [],
           'nviol': 0, 'samples': [], 'digest': 0,
           'sim_seconds': 0.0, 'truncated': False, 'hangs': [],
           'by_group': {}}
    sigs_seen = {}
    dump = None
    if os.environ.get('VERIF_DUMP_DIGESTS'):
        dump = open('%s.%d' % (os.environ['VERIF_DUMP_DIGESTS'], w), 'w')
    try:
        g = w
        while g < ncases:
            if time.time() > deadline:
                agg['truncated'] = True
                break
            faulthandler.dump_traceback_later(900, exit=True)
            rng = case_rng(seed, mod.PROP, g)
            case = mod.gen_case(rng, tier, g)
            case['g'] = g
            out = run_guarded(mod, case)
            faulthandler.cancel_dump_traceback_later()
            agg['evaluations'] += 1
            agg['steps'] += out['steps']
            agg['sim_seconds'] += out['sim_seconds']
            # commutative combination: independent of the worker count
            # (the case itself is part of it: two generators that produce
            # the same event logs from different cases differ here)
            ck = case_key(case).hex()
            agg['digest'] = (agg['digest'] + int(hashlib.sha256(
                ('%d:%s:%s:%s' % (g, ck, out['status'],
                                  out['digest'])).encode())
                .hexdigest(), 16)) % (1 << 256)
            if dump is not None:
                dump.write('%d %s %s %s\n' % (g, ck, out['status'],
                                              out['digest']))
            for k, v in out['probes'].items():
                agg['probes'][k] = agg['probes'].get(k, 0) + v
            for k, v in out['fired'].items():
                agg['fired'][k] = agg['fired'].get(k, 0) + v
            agg['states'].update(out['states'])
            grp = out['extra'].get('group')
            if grp is not None:
                agg['by_group'][grp] = agg['by_group'].get(grp, 0) + 1
            if out['status'] == 'trivial' or not out['nontrivial']:
                agg['trivial'] += 1
            else:
                agg['keys'].add(case_key(case))
            if out['status'] == 'ok' and len(agg['samples']) < 2 \
                    and out['nontrivial'] and \
                    len(json.dumps(case)) < 6000:
                agg['samples'].append(case)
            if out['status'] == 'hang':
                agg['hangs'].append(case)
            if out['status'] == 'violation':
                agg['nviol'] += 1
                s = json.dumps(out['sig'], sort_keys=True)
                n = sigs_seen.get(s, 0)
                sigs_seen[s] = n + 1
                if n < 2 and len(agg['violations']) < 200:
                    agg['violations'].append((case, out))
            g += nworkers
    finally:
        devices.remove_scratch_root()
    agg['sig_counts'] = sigs_seen
    if dump is not None:
        dump.close()
    return agg


# ---------------------------------------------------------------------------
# known findings

def load_findings():
    path = os.path.join(VERIF, 'known_findings.json')
    if not os.path.exists(path):
        return {'findings': [], 'fixed': []}
    with open(path) as f:
        return json.load(f)


def _match_value(want, have):
    if isinstance(want, dict):
        if 'in' in want:
            return have in want['in']
        if 'contains' in want:
            try:
                return want['contains'] in have
            except TypeError:
                return False
        if 'contains_any' in want:
            try:
                return any(x in have for x in want['contains_any'])
            except TypeError:
                return False
        if 'prefix' in want:
            return isinstance(have, str) and have.startswith(want['prefix'])
        return False
    return want == have


def match_finding(prop, sig, findings=None):
    findings = findings if findings is not None else load_findings()
    for f in findings.get('findings', []):
        if f.get('status', 'open') != 'open' or f.get('property') != prop:
            continue
        m = f.get('match', {})
        if all(k in sig and _match_value(v, sig[k]) for k, v in m.items()):
            return f
    return None


def quarantined(prop, key='recipe'):
    """Values of sig[key] named by open findings of this property: the
    generators run those configurations unstacked so that their signature
    stays precise."""
    out = set()
    for f in load_findings().get('findings', []):
        if f.get('status', 'open') == 'open' and f.get('property') == prop:
            v = f.get('match', {}).get(key)
            if isinstance(v, str):
                out.add(v)
            elif isinstance(v, dict):
                for x in v.get('in', []) + v.get('contains_any', []):
                    out.add(x)
                if 'contains' in v:
                    out.add(v['contains'])
    return out


# ---------------------------------------------------------------------------
# minimisation

def same_violation(out, ref):
    return out['status'] == 'violation' and out['vclass'] == ref['vclass'] \
        and json.dumps(out['sig'], sort_keys=True) == \
        json.dumps(ref['sig'], sort_keys=True)


def minimise(mod, case, ref, budget_s=20.0):
    """Greedy descent over mod.shrink_candidates while the same violation
    (class and signature) persists."""
    if not hasattr(mod, 'shrink_candidates'):
        return case, ref, 0
    t0 = time.time()
    best, best_out = case, ref
    accepted = 0
    progress = True
    while progress and time.time() - t0 < budget_s:
        progress = False
        for cand in mod.shrink_candidates(best):
            if time.time() - t0 > budget_s:
                break
            try:
                # (each candidate in a child of this process: what one
                # evaluation leaves behind in the code under test - module
                # level state - cannot influence the next)
                out = run_isolated(mod, cand, allowance=10)
            except Exception:
                continue
            if same_violation(out, ref):
                best, best_out = cand, out
                accepted += 1
                progress = True
                break
    return best, best_out, accepted


def find_prelude(mod, tier, seed, nworkers, case, ref, budget_s=20.0):
    """The cases that the worker which ran `case` had run before it, cut
    down to a short list after which `case` still fails the same way in a
    fresh child.  Returns (list, outcome) or (None, None)."""
    from .loader import load_petl
    load_petl()
    t0 = time.time()
    g = case.get('g')
    if g is None:
        return None, None
    earlier = []
    for g2 in range(g % nworkers, g, nworkers):
        c = mod.gen_case(case_rng(seed, mod.PROP, g2), tier, g2)
        c['g'] = g2
        if c.get('forked') or c.get('interp_env') or c.get('exit'):
            continue                # ran in a child of its own
        earlier.append(c)

    def fails(pre):
        try:
            out = _run_in_fork(mod, case, 30, prelude=pre)
        except Exception:
            return None
        return out if same_violation(out, ref) else None

    best, best_out = None, None
    k = 1
    while True:
        pre = earlier[-k:]
        out = fails(pre)
        if out is not None:
            best, best_out = pre, out
            break
        if k >= len(earlier):
            return None, None
        k *= 2
    progress = True
    while progress and len(best) > 1 and time.time() - t0 < budget_s:
        progress = False
        for cand in ddmin_lists(best):
            if time.time() - t0 > budget_s:
                break
            out = fails(cand)
            if out is not None:
                best, best_out = cand, out
                progress = True
                break
    return best, best_out


def ddmin_lists(lst):
    """Candidates of a list with chunks removed, big chunks first."""
    n = len(lst)
    size = n // 2
    while size >= 1:
        for i in range(0, n, size):
            yield lst[:i] + lst[i + size:]
        size //= 2


# ---------------------------------------------------------------------------
# reporting

def write_replay(prop, seed, case, out, original=None, tag='', prelude=None):
    d = os.path.join(VERIF, 'replays')
    os.makedirs(d, exist_ok=True)
    name = '%s-%d-%s%s.json' % (
        prop, seed,
        hashlib.sha256(json.dumps(case, sort_keys=True).encode())
        .hexdigest()[:10], tag)
    path = os.path.join(d, name)
    with open(path, 'w') as f:
        json.dump({'property': prop, 'seed': seed, 'case': case,
                   'vclass': out['vclass'], 'msg': out['msg'],
                   'sig': out['sig'], 'digest': out['digest'],
                   'original_case': original, 'prelude': prelude or None},
                  f, indent=1, sort_keys=True)
    return path


def replay(mod, path):
    with open(path) as f:
        rep = json.load(f)
    case = rep['case']
    if rep.get('prelude'):
        from .loader import load_petl
        load_petl()
        out = _run_in_fork(mod, case, 120, prelude=rep['prelude'])
        print('  (after %d earlier cases in the same process)'
              % len(rep['prelude']))
    else:
        out = run_guarded(mod, case, allowance=120)
    print('REPLAY property=%s file=%s' % (mod.PROP, path))
    print('  recorded: %s :: %s' % (rep.get('vclass'), rep.get('msg')))
    print('  now     : %s :: %s :: %s' % (out['status'], out['vclass'],
                                          out['msg']))
    print('  digest recorded=%s now=%s' % (rep.get('digest'), out['digest']))
    if out['status'] == 'violation':
        f = match_finding(mod.PROP, out['sig'])
        if f is not None:
            print('KNOWN-FINDING: property=%s %s' % (mod.PROP, f['what']))
        print('VIOLATION property=%s replay=%s' % (mod.PROP, path))
        return 1
    print('no violation on this tree')
    return 0


def run_check(modname, tier, seed, workers=None, cases=None):
    t0 = time.time()
    mod = importlib.import_module(modname)
    prop = mod.PROP
    bud = mod.budget(tier)
    ncases = cases or int(os.environ.get('VERIF_CASES', 0)) or bud['cases']
    cap = float(os.environ.get('VERIF_WALL_CAP', bud.get('wall_cap_s', 600)))
    nworkers = workers or int(os.environ.get('VERIF_WORKERS', 0)) or \
        min(16, len(os.sched_getaffinity(0)))
    print('SEED %d property=%s tier=%s cases=%d workers=%d repo=%s'
          % (seed, prop, tier, ncases, nworkers,
             os.environ.get('VERIF_REPO', '/repo')))
    sys.stdout.flush()
    deadline = t0 + cap
    ctx = multiprocessing.get_context('fork')
    aggs = []
    try:
        with ProcessPoolExecutor(max_workers=nworkers, mp_context=ctx) as ex:
            futs = [ex.submit(_work, (modname, tier, seed, w, nworkers,
                                      ncases, deadline))
                    for w in range(nworkers)]
            for fu in futs:
                aggs.append(fu.result(timeout=cap + 600))
    except Exception as e:
        print('HARNESS-ERROR property=%s %s: %s' % (prop, type(e).__name__, e))
        traceback.print_exc()
        return 3

    total = {'evaluations': 0, 'trivial': 0, 'steps': 0, 'nviol': 0,
             'sim_seconds': 0.0}
    keys, states = set(), set()
    probes, fired, sig_counts, by_group = {}, {}, {}, {}
    violations, samples, hangs = [], [], []
    truncated = False
    for a in aggs:
        for k in total:
            total[k] += a[k]
        keys |= a['keys']
        states |= a['states']
        for k, v in a['probes'].items():
            probes[k] = probes.get(k, 0) + v
        for k, v in a['fired'].items():
            fired[k] = fired.get(k, 0) + v
        for k, v in a['sig_counts'].items():
            sig_counts[k] = sig_counts.get(k, 0) + v
        for k, v in a['by_group'].items():
            by_group[k] = by_group.get(k, 0) + v
        violations.extend(a['violations'])
        samples.extend(a['samples'])
        hangs.extend(a['hangs'])
        truncated = truncated or a['truncated']
    batch_digest = '%064x' % (sum(a['digest'] for a in aggs) % (1 << 256))

    # confirm hangs alone, with a long allowance, before believing them
    for case in hangs[:3]:
        out = run_guarded(mod, case, allowance=120)
        if out['status'] == 'hang':
            out['status'] = 'violation'
            out['sig'] = dict(out['sig'], recipe=case.get('recipe_name'))
            violations.append((case, out))
            total['nviol'] += 1
        elif out['status'] == 'violation':
            violations.append((case, out))
            total['nviol'] += 1

    # triage: one representative per signature
    findings = load_findings()
    by_sig = {}
    cands = {}
    for case, out in sorted(violations, key=lambda co: co[0].get('g', 0)):
        s = json.dumps(out['sig'], sort_keys=True)
        by_sig.setdefault(s, (case, out))
        cands.setdefault(s, []).append((case, out))
    known_printed = {}
    new = []
    shrink_budget = float(os.environ.get(
        'VERIF_SHRINK_S', 20 if tier == 'quick' else 40))
    for s, (case, out) in sorted(by_sig.items()):
        f = match_finding(prop, out['sig'], findings)
        if f is not None:
            known_printed.setdefault(f['id'], (f, 0))
            known_printed[f['id']] = (f, known_printed[f['id']][1]
                                      + sig_counts.get(s, 1))
            continue
        new.append((case, out, s))
    for fid, (f, n) in sorted(known_printed.items()):
        print('KNOWN-FINDING: property=%s %s [id=%s, %d cases this run]'
              % (prop, f['what'], fid, n))
    rc = 0
    reported = 0
    t_shr = time.time()
    for case, out, s in new[:8]:
        left = max(3.0, shrink_budget - (time.time() - t_shr))
        # the representative must fail on its own, in a fresh child of this
        # process (which has run no case); if none of the class does, the
        # violation needs what earlier cases left behind in the code under
        # test: the replay then holds those cases as well
        prelude = None
        for c2, o2 in cands.get(s, [])[:6]:
            try:
                alone = run_isolated(mod, c2, allowance=30)
            except Exception:
                continue
            if same_violation(alone, o2):
                case, out = c2, alone
                break
        else:
            prelude, pout = find_prelude(mod, tier, seed, nworkers, case,
                                         out, budget_s=max(left, 15.0))
            if prelude is not None:
                out = pout
        if prelude is None:
            small, small_out, nacc = minimise(mod, case, out, budget_s=left)
        else:
            small, small_out, nacc = case, out, 0
        # a minimised case may itself fall under a known finding
        f = match_finding(prop, small_out['sig'], findings)
        if f is not None:
            continue
        path = write_replay(prop, seed, small, small_out, original=case,
                            prelude=prelude)
        print('VIOLATION property=%s replay=%s' % (prop, path))
        print('  class=%s sig=%s (%d cases this run, minimised in %d steps)'
              % (small_out['vclass'], s, sig_counts.get(s, 1), nacc))
        if prelude:
            print('  (only after %d earlier cases in the same process: state '
                  'is carried from one use to the next)' % len(prelude))
        print('  %s' % (small_out['msg'],))
        reported += 1
        rc = 1
    for case, out, s in new[8:]:
        path = write_replay(prop, seed, case, out)
        print('VIOLATION property=%s replay=%s' % (prop, path))
        print('  class=%s sig=%s (not minimised)' % (out['vclass'], s))
        rc = 1

    wall = time.time() - t0
    selferr = []
    if hasattr(mod, 'selfcheck'):
        selferr = mod.selfcheck({'probes': probes, 'fired': fired,
                                 'evaluations': total['evaluations'],
                                 'tier': tier, 'truncated': truncated}) or []
    ev = {
        'property_id': prop,
        'tier': tier,
        'seed': seed,
        'level': mod.LEVEL,
        'wall_s': round(wall, 2),
        'violations': len(new),
        'coverage': {
            'evaluations': total['evaluations'],
            'distinct_nontrivial': len(keys),
            'trivial_or_inapplicable': total['trivial'],
            'rule': mod.RULE,
            'samples': samples[:3],
            'steps': total['steps'],
            'runs_per_hour': int(total['evaluations'] / max(wall, 1e-6)
                                 * 3600),
            'seeds': 'VERIF_SEED=%d; case g uses sha256(seed/prop/g); '
                     'g in [0,%d)' % (seed, ncases),
            'simulated_seconds': round(total['sim_seconds'], 3),
            'fault_kinds_fired': dict(sorted(fired.items())),
            'probes': dict(sorted(probes.items())),
            'distinct_abstract_states': len(states),
            'abstract_state_measure': getattr(mod, 'STATES', ''),
            'cases_by_group': dict(sorted(by_group.items())),
            'batch_digest': batch_digest,
            'truncated_by_wall_cap': truncated,
            'known_findings_hit': dict((k, v[1])
                                       for k, v in known_printed.items()),
            'components': getattr(mod, 'COMPONENTS', {}),
            'workers': nworkers,
            'exhaustive': False,
        },
        'assumptions': getattr(mod, 'ASSUMPTIONS', []),
    }
    if hasattr(mod, 'evidence_extra'):
        ev['coverage'].update(mod.evidence_extra(tier) or {})
    if not os.environ.get('VERIF_NO_EVIDENCE'):
        os.makedirs(os.path.join(VERIF, 'evidence'), exist_ok=True)
        evpath = os.path.join(VERIF, 'evidence', '%s.json' % prop)
        with open(evpath, 'w') as f:
            json.dump(ev, f, indent=1, sort_keys=True, default=repr)
    print('%s property=%s evaluations=%d distinct_nontrivial=%d trivial=%d '
          'states=%d violations=%d known=%d wall=%.1fs digest=%s%s'
          % ('FAIL' if rc else 'OK', prop, total['evaluations'], len(keys),
             total['trivial'], len(states), len(new), len(known_printed),
             wall, batch_digest[:16], ' TRUNCATED' if truncated else ''))
    for e in selferr:
        print('HARNESS-ERROR property=%s selfcheck: %s' % (prop, e))
    if selferr and rc == 0:
        return 3
    return rc


def main(argv=None):
    import argparse
    ap = argparse.ArgumentParser()
    ap.add_argument('prop')
    ap.add_argument('--tier', default=os.environ.get('VERIF_TIER', 'quick'),
                    choices=['quick', 'thorough'])
    ap.add_argument('--replay')
    ap.add_argument('--seed', type=int,
                    default=int(os.environ.get('VERIF_SEED', DEFAULT_SEED)))
    ap.add_argument('--workers', type=int, default=None)
    ap.add_argument('--cases', type=int, default=None)
    ap.add_argument('--case', type=int, default=None,
                    help='run the single generated case g and print it')
    args = ap.parse_args(argv)
    if os.environ.get('PYTHONHASHSEED') is None:
        env = dict(os.environ, PYTHONHASHSEED='0')
        os.execve(sys.executable, [sys.executable] + sys.argv, env)
    modname = 'checks.%s' % args.prop.lower()
    mod = importlib.import_module(modname)
    try:
        if args.replay:
            return replay(mod, args.replay)
        if args.case is not None:
            rng = case_rng(args.seed, mod.PROP, args.case)
            case = mod.gen_case(rng, args.tier, args.case)
            case['g'] = args.case
            out = run_guarded(mod, case, allowance=120)
            print(json.dumps(case, indent=1, sort_keys=True))
            print(json.dumps(out, indent=1, sort_keys=True, default=repr))
            return 1 if out['status'] == 'violation' else 0
        return run_check(modname, args.tier, args.seed, args.workers,
                         args.cases)
    finally:
        devices.remove_scratch_root()
