"""Deterministic simulation kernel for the petl properties (see DESIGN.md)."""
