"""Simulated devices: row sources, byte stores, clocks, temp sandboxes.

All devices charge their activity to the task the kernel is stepping
(`CTX.task`), or to 'ctor' when no task runs.  None of them draws from the
global `random` module or reads a real clock.
"""
import bz2
import gzip
import io
import os
import shutil
import tempfile
from contextlib import contextmanager


class SimSourceError(Exception):
    """Injected failure of a row source."""


class SimCloseFault(SimSourceError):
    """A source that objects to being shut down before it was drained (a
    generator whose clean-up raises)."""


class SimSourceTypeError(SimSourceError, TypeError):
    pass


class SimSourceValueError(SimSourceError, ValueError):
    pass


class SimSourceKeyError(SimSourceError, KeyError):
    pass


class SimSourceIndexError(SimSourceError, IndexError):
    pass


class SimSourceAttributeError(SimSourceError, AttributeError):
    pass


class SimSourceOSError(SimSourceError, OSError):
    pass


class SimSourceEOFError(SimSourceError, EOFError):
    """(EOFError is how petl's own readers recognise the end of a pickle
    stream: one coming from a source is a failure, not an end)"""


class SimSourceStopIteration(SimSourceError, StopIteration):
    """A source that fails with StopIteration raised from *inside* its
    __next__... that is simply its end; so this one is raised by a source
    whose iterator is a generator, where it surfaces as RuntimeError
    (PEP 479) - see SimTable._gen."""


class SimSourceRuntimeError(SimSourceError, RuntimeError):
    pass


class SimSourceMemoryError(SimSourceError, MemoryError):
    """A failing allocation while the source produces a row."""


class SimSourceAssertionError(SimSourceError, AssertionError):
    pass


import sqlite3 as _sqlite3


class SimSourceDbLocked(SimSourceError, _sqlite3.OperationalError):
    """A source that fails the way a busy database does (the rows come from
    another table or database): 'database is locked' is the classic
    *retryable* error - whoever retries must first undo what the failed
    attempt did."""

    def __init__(self, msg=''):
        super(SimSourceDbLocked, self).__init__(
            'database is locked (%s)' % msg)


class SimSourceAbort(BaseException):
    """A source interrupted by something that is not an Exception
    (KeyboardInterrupt-like): `except Exception` handlers do not see it, only
    `finally` blocks and finalisers run."""


INJECTED_SOURCE_FAILURES = (SimSourceError, SimSourceAbort)


# a failing source may raise any exception class; code under test that
# catches e.g. TypeError for its own purposes must not swallow these
SOURCE_ERRORS = {'plain': SimSourceError, 'type': SimSourceTypeError,
                 'value': SimSourceValueError, 'key': SimSourceKeyError,
                 'index': SimSourceIndexError,
                 'attr': SimSourceAttributeError, 'os': SimSourceOSError,
                 'abort': SimSourceAbort, 'eof': SimSourceEOFError,
                 'runtime': SimSourceRuntimeError,
                 'memory': SimSourceMemoryError,
                 'assert': SimSourceAssertionError,
                 'dblocked': SimSourceDbLocked}
SOURCE_ERROR_KINDS = sorted(SOURCE_ERRORS)


class SimDiskFull(OSError):
    """Injected ENOSPC."""

    def __init__(self, msg='No space left on device (injected)'):
        OSError.__init__(self, 28, msg)


class PoisonedTail(Exception):
    """The source was asked for rows beyond the allowed look-ahead."""


class _Ctx(object):
    def __init__(self):
        self.task = 'ctor'
        self.fired = {}
        self.unraisable = []
        self.slept_ms = 0        # simulated sleeps (petl.util.random `wait`)

    def fire(self, kind, n=1):
        self.fired[kind] = self.fired.get(kind, 0) + n


CTX = _Ctx()


@contextmanager
def as_task(name):
    prev = CTX.task
    CTX.task = name
    try:
        yield
    finally:
        CTX.task = prev


# ---------------------------------------------------------------------------
# row source

class SimTable(object):
    """A table container (petl convention: anything with __iter__ whose first
    row is the header).  Every __iter__ returns a fresh generator over the
    *current* contents, like a list of lists.

    mode='alias': yields the stored row objects themselves (mutable lists).
    mode='copy' : yields tuples.

    Meters (per task): 'iter' calls, 'hdr' pulls, 'data' pulls.
    Fault plan: fail_at = i raises SimSourceError *instead of* row i
    (0 = header, n+1 = at exhaustion); armed for `fail_passes` passes (None =
    every pass).  poison = P raises PoisonedTail if data row index > P
    (1-based) is requested.
    """

    def __init__(self, rows, mode='alias', name='s'):
        self.rows = rows
        self.mode = mode
        self.name = name
        self.meter = {}
        self.fail_at = None
        self.fail_passes = None
        self.poison = None
        self.clock = None
        self.latency = None
        self.npasses = 0
        # one-shot callback run just before row `index` is handed out (the
        # source calls back into the application: a nested pass over the
        # view under test while one of its iterators is in mid-step)
        self.hook = None

    # petl calls header(), look() etc. through iter()
    def __iter__(self):
        self._charge('iter')
        self.npasses += 1
        return self._gen()

    def _charge(self, what, n=1):
        k = (CTX.task, what)
        self.meter[k] = self.meter.get(k, 0) + n

    def pulls(self, what='data', task=None):
        if task is None:
            return sum(v for (t, w), v in self.meter.items() if w == what)
        return self.meter.get((task, what), 0)

    def arm(self, index, passes=None, kind='plain'):
        self.fail_at = index
        self.fail_passes = passes
        self.fail_cls = SOURCE_ERRORS.get(kind, SimSourceError)

    def disarm(self):
        self.fail_at = None

    def _maybe_fail(self, i):
        if self.fail_at is not None and i == self.fail_at:
            if self.fail_passes is not None:
                self.fail_passes -= 1
                if self.fail_passes <= 0:
                    self.fail_at = None
            CTX.fire('source-raise')
            cls = getattr(self, 'fail_cls', SimSourceError)
            if cls is not SimSourceError:
                CTX.fire('source-raise:' + cls.__name__)
            raise cls('injected failure of source %s at row %d'
                      % (self.name, i))

    def _gen(self):
        rows = self.rows
        i = 0
        while True:
            self._maybe_fail(i)
            if self.hook is not None and self.hook[0] == i:
                fn = self.hook[1]
                self.hook = None
                CTX.fire('reentrant-callback')
                fn()
            if i >= len(rows):
                return
            if i > 0 and self.poison is not None and i > self.poison:
                CTX.fire('poison-hit')
                raise PoisonedTail('source %s: row %d requested, allowed %d'
                                   % (self.name, i, self.poison))
            if self.clock is not None and self.latency:
                self.clock.advance(self.latency[i % len(self.latency)])
            row = rows[i]
            self._charge('hdr' if i == 0 else 'data')
            i += 1
            if self.mode == 'copy':
                yield tuple(row)
            else:
                yield row


class PipeFault(object):
    """A table container that passes another table through and raises
    instead of item `fail_at` (0 = header, n+1 = at exhaustion): a failure
    injected into the middle of a pipeline whose source is not a SimTable
    (e.g. fromdb on the connection that is also being loaded)."""

    def __init__(self, inner, fail_at=None, kind='plain'):
        self.inner = inner
        self.fail_at = fail_at
        self.cls = SOURCE_ERRORS.get(kind, SimSourceError)

    def __iter__(self):
        it = iter(self.inner)
        i = 0
        while True:
            if self.fail_at is not None and i == self.fail_at:
                CTX.fire('source-raise')
                CTX.fire('pipeline-raise')
                raise self.cls('injected failure in the pipeline at item %d'
                               % i)
            try:
                row = next(it)
            except StopIteration:
                return
            i += 1
            yield row


class LongTable(SimTable):
    """Synthetic long source: the first len(prefix) rows are given, the rest
    are generated on demand by a pure function of the index, so that a 10 000
    row source costs nothing unless something scans it."""

    def __init__(self, prefix, total, filler, mode='copy', name='s'):
        SimTable.__init__(self, prefix, mode=mode, name=name)
        self.total = total          # number of rows including the header
        self.filler = filler

    def _gen(self):
        i = 0
        while True:
            self._maybe_fail(i)
            if i >= self.total:
                return
            if i > 0 and self.poison is not None and i > self.poison:
                CTX.fire('poison-hit')
                raise PoisonedTail('source %s: row %d requested, allowed %d'
                                   % (self.name, i, self.poison))
            if i < len(self.rows):
                row = self.rows[i]
            else:
                row = self.filler(i)
            self._charge('hdr' if i == 0 else 'data')
            i += 1
            yield tuple(row) if self.mode == 'copy' else row


# ---------------------------------------------------------------------------
# byte store

class SimStore(object):
    """Named byte strings with the visibility rules of regular files seen
    through Python's buffered layer."""

    def __init__(self, frag=None):
        self.files = {}
        self.open_handles = 0
        self.max_open = 0
        self.meter = {}
        self.frag = frag          # list of ints: read1 fragment sizes, cycled
        self.fragpos = 0
        self.nopen = 0
        self.handles = []
        # fault plan for writers: once this many more bytes have been
        # accepted, write() stores what still fits (a torn write) and raises
        # ENOSPC; None = no fault
        self.write_budget = None

    def charge(self, what, n=1):
        k = (CTX.task, what)
        self.meter[k] = self.meter.get(k, 0) + n

    def total(self, what, task=None):
        if task is None:
            return sum(v for (t, w), v in self.meter.items() if w == what)
        return self.meter.get((task, what), 0)

    def next_frag(self, n):
        if not self.frag:
            return n
        f = self.frag[self.fragpos % len(self.frag)]
        self.fragpos += 1
        return max(1, min(n, f))

    def source(self, name):
        return SimSource(self, name)


class SimSource(object):
    """A petl source: anything with open(mode)."""

    def __init__(self, store, name):
        self.store = store
        self.name = name

    def open(self, mode='rb'):
        return SimFile(self.store, self.name, mode)

    def __repr__(self):
        return 'SimSource(%r)' % self.name


class SimFile(io.BufferedIOBase):
    """Binary handle on a SimStore entry.

    wb: truncates at open.  ab: appends.  rb: reads the contents visible at
    each read call.  Writes become visible to other handles at flush()/
    close().  read(n) is complete unless EOF (BufferedIOBase contract);
    read1(n) returns a store-chosen 1..n bytes (legal fragmentation).
    """

    def __init__(self, store, name, mode):
        io.BufferedIOBase.__init__(self)
        if 'b' not in mode:
            raise ValueError('SimFile is binary only, got mode %r' % mode)
        self.store = store
        self.fname = name
        self.fmode = mode
        self._pos = 0
        self._buf = bytearray()
        self._base = 0
        self._flushed = 0         # how much of _buf has reached the store
        store.nopen += 1
        store.open_handles += 1
        store.max_open = max(store.max_open, store.open_handles)
        store.charge('open')
        if mode.startswith('w'):
            store.files[name] = b''
        elif mode.startswith('a'):
            store.files.setdefault(name, b'')
            self._base = len(store.files[name])
        elif mode.startswith('r'):
            if name not in store.files:
                store.open_handles -= 1
                raise FileNotFoundError(2, 'No such simulated file', name)
        else:
            raise ValueError(mode)

    @property
    def mode(self):
        return self.fmode

    @property
    def name(self):
        return self.fname

    def readable(self):
        return self.fmode.startswith('r') or '+' in self.fmode

    def writable(self):
        return not self.fmode.startswith('r') or '+' in self.fmode

    def seekable(self):
        return True

    def tell(self):
        if self.fmode.startswith('r'):
            return self._pos
        return self._base + len(self._buf) if self.fmode.startswith('a') \
            else self._base + len(self._buf)

    def seek(self, pos, whence=0):
        if not self.fmode.startswith('r'):
            # writers: only no-op seeks are supported (what TextIOWrapper and
            # gzip do on a freshly opened file)
            cur = self.tell()
            target = pos if whence == 0 else (cur + pos if whence == 1
                                              else cur + pos)
            if target != cur:
                raise io.UnsupportedOperation('seek on simulated writer')
            return cur
        data = self.store.files[self.fname]
        if whence == 0:
            self._pos = pos
        elif whence == 1:
            self._pos += pos
        else:
            self._pos = len(data) + pos
        self._pos = max(0, self._pos)
        return self._pos

    def _check(self):
        if self.closed:
            raise ValueError('I/O operation on closed simulated file')

    def read(self, n=-1):
        self._check()
        data = self.store.files[self.fname]
        if n is None or n < 0:
            out = data[self._pos:]
        else:
            out = data[self._pos:self._pos + n]
        self._pos += len(out)
        self.store.charge('bytes_read', len(out))
        self.store.charge('reads')
        return bytes(out)

    def read1(self, n=-1):
        self._check()
        data = self.store.files[self.fname]
        avail = len(data) - self._pos
        if n is None or n < 0:
            n = avail
        n = min(n, avail)
        if n > 0:
            n = self.store.next_frag(n)
        out = data[self._pos:self._pos + n]
        self._pos += len(out)
        self.store.charge('bytes_read', len(out))
        self.store.charge('reads')
        return bytes(out)

    def readinto(self, b):
        data = self.read(len(b))
        b[:len(data)] = data
        return len(data)

    def readinto1(self, b):
        data = self.read1(len(b))
        b[:len(data)] = data
        return len(data)

    def write(self, b):
        self._check()
        if not self.writable():
            raise io.UnsupportedOperation('not writable')
        b = bytes(b)
        budget = self.store.write_budget
        if budget is not None:
            if len(b) > budget:
                self._buf += b[:budget]
                self.store.charge('bytes_written', budget)
                self.store.write_budget = 0
                CTX.fire('sink-write-error')
                raise SimDiskFull()
            self.store.write_budget = budget - len(b)
        self._buf += b
        self.store.charge('bytes_written', len(b))
        return len(b)

    def flush(self):
        if self.closed:
            return
        if self.writable() and not self.fmode.startswith('r'):
            # like a file descriptor: a 'wb' handle writes at its own offset
            # (over whatever is there, keeping what lies beyond - another
            # handle may have rewritten the file since), an 'ab' handle at
            # the current end
            cur = self.store.files.get(self.fname, b'')
            new = bytes(self._buf[self._flushed:])
            if new:
                if self.fmode.startswith('a'):
                    cur = cur + new
                else:
                    at = self._base + self._flushed
                    cur = cur[:at].ljust(at, b'\0') + new + \
                        cur[at + len(new):]
                self.store.files[self.fname] = cur
                self._flushed = len(self._buf)
            self.store.charge('flushes')

    def close(self):
        if not self.closed:
            try:
                self.flush()
            finally:
                self.store.open_handles -= 1
                io.BufferedIOBase.close(self)


class SimCompressedSource(object):
    """gzip / bz2 codec layered on a SimSource exactly as petl's GzipSource /
    BZ2Source layer it on a file name (same calls: gzip.open / bz2.BZ2File on
    a binary file object, closed when the context exits)."""

    def __init__(self, inner, codec):
        self.inner = inner
        self.codec = codec

    @contextmanager
    def open(self, mode='rb'):
        raw = self.inner.open(mode)
        try:
            if self.codec == 'gz':
                f = gzip.open(raw, mode)
            else:
                f = bz2.BZ2File(raw, mode)
            try:
                yield f
            finally:
                f.close()
        finally:
            raw.close()

    def __repr__(self):
        return 'SimCompressedSource(%r, %s)' % (self.inner, self.codec)


# ---------------------------------------------------------------------------
# clock

class SimClock(object):
    """Replaces the `time` module inside petl.util.timing / petl.util.random.

    Readings follow a script of behaviours: 'adv' (advance by the pending
    latency), 'stall' (same reading again), 'fwd' / 'back' jumps, and coarse
    resolution.  No real sleep ever happens.
    """

    def __init__(self, epoch=1790000000.0, script=None, resolution=None):
        self.epoch = epoch
        self.ticks = 0            # milliseconds since epoch, true time
        self.offset = 0           # jumps applied to readings of time()
        self.script = script or []
        self.pos = 0
        self.resolution = resolution
        self.readings = 0
        self.slept = 0
        self.went_back = 0
        self.stalled = 0
        self.last = None

    def advance(self, ms):
        self.ticks += ms

    def _read(self):
        self.readings += 1
        if self.script:
            kind, arg = self.script[self.pos % len(self.script)]
            self.pos += 1
            if kind == 'adv':
                self.ticks += arg
            elif kind == 'stall':
                pass
            elif kind == 'fwd':
                self.offset += arg
                CTX.fire('clock-jump-forward')
            elif kind == 'back':
                self.offset -= arg
                CTX.fire('clock-jump-backward')
        t = self.ticks + self.offset
        if self.resolution:
            t = (t // self.resolution) * self.resolution
        if self.last is not None:
            if t == self.last:
                self.stalled += 1
                CTX.fire('clock-stall')
            elif t < self.last:
                self.went_back += 1
                CTX.fire('clock-went-backwards')
        self.last = t
        return self.epoch + t / 1000.0

    def time(self):
        return self._read()

    def perf_counter(self):
        return self._read()

    def process_time(self):
        return self._read()

    def monotonic(self):
        return self._read()

    def sleep(self, s):
        self.slept += 1
        self.ticks += int(s * 1000)
        CTX.slept_ms += int(s * 1000)
        CTX.fire('sleep-simulated')

    @property
    def simulated_seconds(self):
        return self.ticks / 1000.0


# ---------------------------------------------------------------------------
# temp sandbox

_SCRATCH_ROOT = None


def scratch_root():
    """Per-process scratch directory, outside /repo and /verif."""
    global _SCRATCH_ROOT
    if _SCRATCH_ROOT is None or not os.path.isdir(_SCRATCH_ROOT) \
            or _SCRATCH_ROOT_PID != os.getpid():
        _make_scratch_root()
    return _SCRATCH_ROOT


_SCRATCH_ROOT_PID = None
_REAL_TEMPDIR = None


def _make_scratch_root():
    global _SCRATCH_ROOT, _SCRATCH_ROOT_PID, _REAL_TEMPDIR
    if _REAL_TEMPDIR is None:
        _REAL_TEMPDIR = os.environ.get('VERIF_SCRATCH')
        if not _REAL_TEMPDIR:
            # a memory-backed directory if there is one (sqlite commits and
            # chunk files are much faster there), else the usual temp dir
            if os.path.isdir('/dev/shm') and os.access('/dev/shm', os.W_OK):
                _REAL_TEMPDIR = '/dev/shm'
            else:
                _REAL_TEMPDIR = os.environ.get('TMPDIR') or '/tmp'
    _SCRATCH_ROOT = tempfile.mkdtemp(prefix='petl-verif-%d-' % os.getpid(),
                                     dir=_REAL_TEMPDIR)
    _SCRATCH_ROOT_PID = os.getpid()


def remove_scratch_root():
    global _SCRATCH_ROOT
    if _SCRATCH_ROOT is not None and _SCRATCH_ROOT_PID == os.getpid():
        shutil.rmtree(_SCRATCH_ROOT, ignore_errors=True)
        _SCRATCH_ROOT = None


class TempSandbox(object):
    """A private real directory installed as tempfile.tempdir for the run."""

    def __init__(self):
        self.path = None
        self._saved = None

    def __enter__(self):
        self.path = tempfile.mkdtemp(prefix='sb-', dir=scratch_root())
        self._saved = tempfile.tempdir
        tempfile.tempdir = self.path
        return self

    def listing(self):
        return sorted(os.listdir(self.path))

    def __exit__(self, *exc):
        tempfile.tempdir = self._saved
        shutil.rmtree(self.path, ignore_errors=True)
        return False
