"""Small executable reference models used as oracles.

Written independently of petl's implementation (no petl import here)."""
import datetime
import decimal
import functools

_NUM = (bool, int, float, decimal.Decimal)


def _typename(x):
    # bytes sort before text, other unrelated types by their type name
    if isinstance(x, bytes):
        return 'str'
    if isinstance(x, str):
        return 'unicode'
    return type(x).__name__


def ref_cmp(a, b):
    """Three-way comparison for the ordering stated in C04, on the
    conservative value domain: None < numbers < everything else; one type:
    native order; unrelated types: by type name (bytes before text);
    lists/tuples element-wise, a proper prefix first."""
    if a is None or b is None:
        if a is None and b is None:
            return 0
        return -1 if a is None else 1
    an, bn = isinstance(a, _NUM), isinstance(b, _NUM)
    if an or bn:
        if an and bn:
            return -1 if a < b else (1 if a > b else 0)
        return -1 if an else 1
    aseq, bseq = isinstance(a, (list, tuple)), isinstance(b, (list, tuple))
    if aseq and bseq:
        for x, y in zip(a, b):
            c = ref_cmp(x, y)
            if c:
                return c
        return -1 if len(a) < len(b) else (1 if len(a) > len(b) else 0)
    if type(a) is type(b):
        try:
            return -1 if a < b else (1 if a > b else 0)
        except TypeError:
            # one type, no order of its own (complex numbers): a tie
            return 0
    ta, tb = _typename(a), _typename(b)
    return -1 if ta < tb else (1 if ta > tb else 0)


ref_key = functools.cmp_to_key(ref_cmp)


def resolve_key(hdr, key):
    """Field spec -> list of indices (names first-match, ints as indices);
    None -> every header field."""
    if key is None:
        return list(range(len(hdr))), True
    many = isinstance(key, (list, tuple))
    spec = list(key) if many else [key]
    names = [str(h) for h in hdr]
    out = []
    for k in spec:
        if isinstance(k, int) and not isinstance(k, bool):
            out.append(k)
        else:
            out.append(names.index(k))
    return out, many


def row_key(row, idx, many):
    vals = [row[i] if i < len(row) else None for i in idx]
    if len(idx) == 1:
        return vals[0]
    return tuple(vals)


def ref_sort(table, key=None, reverse=False):
    """Header, then the data rows as tuples in stable key order."""
    if not table:
        return []
    hdr = table[0]
    idx, many = resolve_key(hdr, key)
    if key is None and len(idx) == 1:
        many = False
    data = [tuple(r) for r in table[1:]]
    data = sorted(data, key=lambda r: ref_key(row_key(r, idx, many)),
                  reverse=reverse)
    return [tuple(hdr)] + data


def ref_cat(tables, header=None, missing=None):
    """Model of cat(): union header (or the given one), cells by field name,
    `missing` elsewhere."""
    hdrs = [[str(h) for h in (t[0] if t else [])] for t in tables]
    if header is None:
        out = []
        for h in hdrs:
            for f in h:
                if f not in out:
                    out.append(f)
    else:
        out = list(header)
    rows = [tuple(out)]
    for t, h in zip(tables, hdrs):
        for r in t[1:]:
            new = []
            for f in out:
                if f in h and h.index(f) < len(r):
                    new.append(r[h.index(f)])
                else:
                    new.append(missing)
            rows.append(tuple(new))
    return rows
