"""Canonical forms and JSON-safe encoding of cells, rows and tables.

* enc/dec: a case is plain JSON; cells that JSON cannot carry are tagged.
* canon_*: the form in which rows are compared and logged.  Per cell: type
  name + repr (so 1, 1.0, True and '1' are all different); the container type
  of a *row* is ignored (list, tuple and Record rows with the same cells are
  the same row); sets are ordered; exceptions are (type name, args).
  copy.deepcopy is not usable: petl Record objects cannot be deep-copied.
"""
import datetime
import fractions
import decimal
import hashlib
import json


# ---------------------------------------------------------------------------
# JSON-safe encoding of cells

def enc(v):
    if v is None or isinstance(v, (bool, int, str)):
        return v
    if isinstance(v, float):
        return {'t': 'float', 'v': repr(v)}
    if isinstance(v, bytes):
        return {'t': 'bytes', 'v': v.decode('latin-1')}
    if isinstance(v, decimal.Decimal):
        return {'t': 'dec', 'v': str(v)}
    if isinstance(v, datetime.datetime):
        return {'t': 'dt', 'v': v.isoformat()}
    if isinstance(v, datetime.date):
        return {'t': 'date', 'v': v.isoformat()}
    if isinstance(v, datetime.time):
        return {'t': 'time', 'v': v.isoformat()}
    if isinstance(v, tuple):
        return {'t': 'tuple', 'v': [enc(x) for x in v]}
    if isinstance(v, list):
        return {'t': 'list', 'v': [enc(x) for x in v]}
    if isinstance(v, dict):
        return {'t': 'dict', 'v': [[enc(k), enc(x)] for k, x in v.items()]}
    if isinstance(v, (set, frozenset)):
        return {'t': type(v).__name__,
                'v': [enc(x) for x in sorted(v, key=repr)]}
    if isinstance(v, complex):
        return {'t': 'complex', 'v': [repr(v.real), repr(v.imag)]}
    if isinstance(v, bytearray):
        return {'t': 'bytearray', 'v': bytes(v).decode('latin-1')}
    if isinstance(v, range):
        return {'t': 'range', 'v': [v.start, v.stop, v.step]}
    if isinstance(v, fractions.Fraction):
        return {'t': 'fraction', 'v': [v.numerator, v.denominator]}
    raise TypeError('cannot encode %r' % (v,))


def dec(v):
    if isinstance(v, dict):
        t, x = v['t'], v['v']
        if t == 'float':
            return float(x)
        if t == 'bytes':
            return x.encode('latin-1')
        if t == 'dec':
            return decimal.Decimal(x)
        if t == 'dt':
            return datetime.datetime.fromisoformat(x)
        if t == 'date':
            return datetime.date.fromisoformat(x)
        if t == 'time':
            return datetime.time.fromisoformat(x)
        if t == 'set':
            return set(dec(y) for y in x)
        if t == 'frozenset':
            return frozenset(dec(y) for y in x)
        if t == 'complex':
            return complex(float(x[0]), float(x[1]))
        if t == 'bytearray':
            return bytearray(x.encode('latin-1'))
        if t == 'range':
            return range(*x)
        if t == 'fraction':
            return fractions.Fraction(x[0], x[1])
        if t == 'tuple':
            return tuple(dec(y) for y in x)
        if t == 'list':
            return [dec(y) for y in x]
        if t == 'dict':
            return dict((dec(k), dec(y)) for k, y in x)
        raise ValueError(t)
    return v


def enc_table(tbl):
    """tbl: list of rows (first is the header) -> JSON-safe."""
    return [[enc(c) for c in row] for row in tbl]


def dec_table(tbl):
    """JSON-safe -> list of lists (mutable rows, like user data)."""
    return [[dec(c) for c in row] for row in tbl]


# ---------------------------------------------------------------------------
# canonical form

def canon_cell(v, _depth=0):
    d = _depth + 1
    if d > 25:
        # (a structure that contains itself, or absurdly deep: code under
        # test gone wrong can produce one; it must compare, not recurse)
        return ('too-deep', type(v).__name__)
    if isinstance(v, (tuple, list)) and not hasattr(v, '_fields') \
            or type(v).__name__ == 'Record':
        return (type(v).__name__ if type(v).__name__ != 'Record' else 'tuple',
                tuple(canon_cell(x, d) for x in v))
    if isinstance(v, (set, frozenset)):
        return (type(v).__name__,
                tuple(sorted((canon_cell(x, d) for x in v), key=repr)))
    if isinstance(v, dict):
        return ('dict', tuple((canon_cell(k, d), canon_cell(x, d))
                              for k, x in v.items()))
    if isinstance(v, BaseException):
        try:
            a = tuple(canon_cell(x, d) for x in v.args)
        except Exception:
            a = ('?',)
        return ('exc', type(v).__name__, a)
    if hasattr(v, '_fields') and isinstance(v, tuple):
        return ('namedtuple', tuple(canon_cell(x, d) for x in v))
    r = repr(v)
    if ' at 0x' in r:
        r = r.split(' at 0x')[0]
    return (type(v).__name__, r)


def canon_row(row):
    """Container type of the row itself is ignored."""
    try:
        return tuple(canon_cell(c) for c in row)
    except TypeError:
        # not iterable: a malformed "row" (compared as a single odd cell)
        return (('!row', canon_cell(row)),)


def canon_rows(rows):
    return [canon_row(r) for r in rows]


def canon_exc(e):
    return ('exc', type(e).__name__, repr(getattr(e, 'args', ()))[:300])


def snapshot(obj):
    """Deep canonical snapshot of a container of rows (for mutation checks):
    keeps container types at every level."""
    return _snapshot(obj, 0)


def _snapshot(obj, depth):
    if depth > 25:
        return ('too-deep', type(obj).__name__)
    if isinstance(obj, (list, tuple)):
        return (type(obj).__name__,
                tuple(_snapshot(x, depth + 1) for x in obj))
    if isinstance(obj, dict):
        return ('dict', tuple((_snapshot(k, depth + 1),
                               _snapshot(v, depth + 1))
                              for k, v in obj.items()))
    return canon_cell(obj, depth)


def show_row(crow):
    """Readable rendering of a canonical row."""
    def cell(c):
        if isinstance(c, tuple) and len(c) == 2 and isinstance(c[1], str):
            return c[1]
        return repr(c)
    return '(' + ', '.join(cell(c) for c in crow) + ')'


def show_rows(crows, limit=12):
    out = [show_row(r) for r in crows[:limit]]
    if len(crows) > limit:
        out.append('... %d more' % (len(crows) - limit))
    return '[' + ', '.join(out) + ']'


def digest(obj):
    return hashlib.sha256(
        json.dumps(obj, sort_keys=True, default=repr).encode('utf-8')
    ).hexdigest()


class Log(object):
    """Event log with a running sha256; logging never draws from a PRNG and
    never reads a clock."""

    def __init__(self, keep=False):
        self.h = hashlib.sha256()
        self.n = 0
        self.keep = keep
        self.events = []

    def add(self, *event):
        s = repr(event)
        self.h.update(s.encode('utf-8', 'backslashreplace'))
        self.h.update(b'\n')
        self.n += 1
        if self.keep:
            self.events.append(s)

    def hexdigest(self):
        return self.h.hexdigest()
