"""C18 - temporary files live exactly as long as something can still read them.

Histories of create / advance / abandon / close / drop-view / gc / source
failure / disk-full on a private real temp directory.  Invariants: the
directory is empty at quiescence; surviving iterators and later passes yield
the complete reference sequence; nothing escapes from a finaliser; once
faults stop a fresh pass over a view that is still held is complete."""
import gc
import json
import logging
import sys
import os
import tempfile

from sim import devices
from sim.canon import Log, dec_table
from sim.catalogue import RECIPES, NAMES, cut_after_conflicts
from sim.core import outcome, not_a_harness_bug
from sim.devices import (SimSourceError, SimSourceAbort, SimDiskFull,
                         SOURCE_ERROR_KINDS)
from sim.gen import gen_table
from sim.loader import load_petl
from sim.sched import Sched, Violation, gen_schedule, show_rows
from sim.viewcase import build, solo_reference, is_items, shrink_common

PROP = 'C18'
LEVEL = 'exploration'
RULE = ('case = (temp-file-creating recipe or stack: sort in all modes, every '
        'sort-backed operator with a small buffersize or a small '
        'petl.config.sort_buffersize, fromdicts on a generator; source '
        'tables of 0..10 rows; history of ITER/NEXT/BURST/DRAIN/DROP/CLOSE/'
        'GC steps over 1..3 iterators plus DROPVIEW, ARM (source raises at '
        'row i, one pass), DISKFULL (ENOSPC after b bytes of chunk/spill '
        'data), then faults off and a fresh pass over every view still '
        'held, then release of everything). Non-trivial: the solo reference '
        'did not raise and at least one temp file existed in the sandbox at '
        'some step. Distinct: by digest of the whole case.')
STATES = 'recipe stack x maximum number of temp files seen (capped at 6)'
COMPONENTS = {
    'real': ['petl SortView/_NamedTempFileDeleteOnGC/DictsGeneratorView and '
             'all sort-backed operators', 'pickle', 'real files in a private '
             'directory (create, reopen, unlink)', 'CPython reference '
             'counting and gc.collect()'],
    'stub': ['SimTable sources (failure injection)',
             'wrapper around NamedTemporaryFile in petl.transform.sorts and '
             'petl.io.json that raises ENOSPC after a byte budget (only in '
             'runs that inject disk-full)'],
}
ASSUMPTIONS = [
    'CPython frees objects when the last reference goes away; the harness '
    'controls every reference it holds (exceptions are never stored, loop '
    'variables are cleared) and calls gc.collect() before observing',
    'POSIX file semantics (an open file may be unlinked)',
]

TEMP_NAMES = [n for n in NAMES if RECIPES[n].temp]
STACKABLE = [n for n in NAMES if RECIPES[n].stackable and RECIPES[n].c01]
HOT = ['sort'] * 6 + ['fromdicts-gen'] * 3 + ['sort-of-sort', 'cache-of-sort',
                                              'mergesort', 'join', 'unjoin',
                                              'diff', 'recast']


def budget(tier):
    if tier == 'quick':
        return {'cases': 10000, 'wall_cap_s': 240}
    return {'cases': 500000, 'wall_cap_s': 1500}


TEMP_PAIRS = [(n, i) for n in TEMP_NAMES
              for i in range(len(RECIPES[n].variants))]


def gen_case(rng, tier, g):
    vi0 = None
    maxrows = 8 if tier == 'quick' else 10
    if rng.random() < 0.5:
        name = rng.choice(HOT)
    else:
        name, vi0 = TEMP_PAIRS[g % len(TEMP_PAIRS)]
    rec = RECIPES[name]
    stack = [[name, rng.randrange(len(rec.variants))]]
    if vi0 is not None:
        stack[0][1] = vi0
    if rec.stackable and rng.random() < 0.25:
        n2 = rng.choice(STACKABLE + ['sort', 'sort', 'distinct'])
        stack.append([n2, rng.randrange(len(RECIPES[n2].variants))])
    # (Conflict sets: their text form depends on the interpreter's hash
    # seed; nothing is built on them)
    cut_after_conflicts(stack)
    nf = rng.randint(3, 5) if (rec.rect or rng.random() < 0.6) else None
    tables = [gen_table(rng, maxrows, minrows=0 if rng.random() < 0.1 else 2,
                        nfields=nf, ragged=False if rec.rect else None,
                        profile='containers' if rec.profile == 'containers'
                        else None)
              for _ in range(max(rec.nsrc, 1))]
    if name == 'fromdicts-gen' and rng.random() < 0.35:
        for i in range(1, min(len(tables[0]), rng.randint(2, 4))):
            tables[0][i] = []
    nviews = 2 if (rec.multi or name == 'sort-of-sort') else 1
    nrows = len(tables[0]) - 1
    steps, shape = gen_schedule(rng, nviews=nviews,
                                ntasks=rng.choice([1, 2, 2, 3, 3]),
                                maxsteps=30, nrows_hint=max(nrows, 2))
    # history extras
    extra = []
    if rng.random() < 0.4:
        for vi in range(nviews):
            if rng.random() < 0.7:
                extra.append(['DROPVIEW', vi])
    faults = rng.random()
    if faults < 0.3:
        si = rng.randrange(max(rec.nsrc, 1))
        n = len(tables[si]) - 1
        extra.append(['ARM', si, rng.choice([0, 1, 2, n // 2, n, n + 1]), 1,
                      rng.choice(SOURCE_ERROR_KINDS)])
    elif faults < (0.65 if name == 'fromdicts-gen' else 0.45):
        extra.append(['DISKFULL', rng.choice([0, 1, 10, 40, 100, 200, 400])])
        if rng.random() < 0.4:
            # ... and space is freed again while the history is going on
            extra.append(['DISKFREE'])
        if name == 'fromdicts-gen' and nrows >= 1 and rng.random() < 0.5:
            # one record is much larger than the others (what a torn write
            # of it leaves behind is longer than the next record)
            r = rng.randrange(1, nrows + 1)
            if tables[0][r]:
                tables[0][r][rng.randrange(len(tables[0][r]))] = \
                    'L' * rng.choice([300, 70000])
    if rng.random() < 0.2:
        # the caching views are told to forget their cache at some moment
        for _ in range(rng.choice([1, 1, 2])):
            extra.append(['CLEARCACHE', rng.randrange(nviews),
                          rng.choice([0, 0, 1])])
    at = 0
    for op in extra:
        at = rng.randint(at if op[0] == 'DISKFREE' else 0, len(steps))
        steps.insert(at, op)
        at += 1
    if rng.random() < 0.3:
        steps.append(['GC'])
    case = {'prop': PROP, 'stack': stack, 'tables': tables, 'steps': steps,
            'shape': shape,
            'knobs': {'sort_buffersize': rng.choice([None, 1, 2, 2, 3, 4])}}
    r = rng.random()
    if r < 0.3:
        # logging configuration of the host application: DEBUG enabled on
        # the petl logger with a handler that formats every record, or one
        # that also keeps the records (MemoryHandler, pytest's caplog)
        case['knobs']['logging'] = 'retain' if r < 0.18 else 'format'
    if rng.random() < 0.006 and not case.get('enum'):
        # the history ends with the interpreter, nothing released before
        case['exit'] = rng.choice(['end-of-script', 'sys.exit'])
        return case
    if rng.random() < 0.12:
        case['fluent'] = True       # method-call style
    if rng.random() < 0.04:
        # the history runs in a forked child of the process that imported
        # petl (a multiprocessing worker)
        case['forked'] = True
    if nviews == 1 and rng.random() < 0.2:
        # enumeration mode: instead of one sampled history, EVERY
        # abandonment point x release order, and a source failure at EVERY
        # row index, each as its own short history on a fresh view
        case['enum'] = rng.choice(SOURCE_ERROR_KINDS)
        case['steps'] = []
    return case


class _FaultyTemp(object):
    """Wraps the object returned by the real NamedTemporaryFile.  Once
    `budget` bytes have reached the disk through any wrapper the disk is
    full, and stays full until the fault plan is withdrawn: an unbuffered
    file fails in write(), a buffered one accepts the write and fails when
    the data have to leave the buffer (flush, seek, tell, read, close) - and
    keeps the data, so that close() fails as well, as it does on a real
    disk."""

    def __init__(self, ctl, real, buffered):
        object.__setattr__(self, '_ctl', ctl)
        object.__setattr__(self, '_real', real)
        object.__setattr__(self, '_buffered', buffered)
        object.__setattr__(self, '_pending', [])

    def _put(self, b):
        ctl = self._ctl
        if ctl.budget is not None:
            if ctl.budget < len(b):
                # what still fits is written (a torn record), then ENOSPC
                if ctl.budget:
                    self._real.write(bytes(b)[:ctl.budget])
                    devices.CTX.fire('torn-temp-write')
                ctl.budget = 0          # full from now on
                devices.CTX.fire('disk-full')
                raise SimDiskFull()
            ctl.budget -= len(b)
        return self._real.write(b)

    def _drain(self):
        pending = self._pending
        while pending:
            self._put(pending[0])
            del pending[0]

    def write(self, b):
        if self._buffered:
            self._pending.append(bytes(b))
            return len(b)
        return self._put(b)

    def flush(self):
        self._drain()
        return self._real.flush()

    def seek(self, *a):
        self._drain()
        return self._real.seek(*a)

    def tell(self):
        self._drain()
        return self._real.tell()

    def read(self, *a):
        self._drain()
        return self._real.read(*a)

    def readline(self, *a):
        self._drain()
        return self._real.readline(*a)

    def readinto(self, b):
        self._drain()
        return self._real.readinto(b)

    def close(self):
        try:
            self._drain()
        finally:
            self._real.close()

    def __getattr__(self, k):
        return getattr(self._real, k)

    def __enter__(self):
        self._real.__enter__()
        return self

    def __exit__(self, *a):
        try:
            self._drain()
        finally:
            r = self._real.__exit__(*a)
        return r

    def __iter__(self):
        return iter(self._real)


class _TempCtl(object):
    def __init__(self):
        self.budget = None

    def factory(self, *a, **kw):
        if self.budget is not None and self.budget <= 0:
            devices.CTX.fire('disk-full-at-create')
            raise SimDiskFull()
        buffered = kw.get('buffering', kw.get('bufsize', -1)) != 0
        return _FaultyTemp(self, tempfile.NamedTemporaryFile(*a, **kw),
                           buffered)


def _listing(path):
    out = []
    for root, dirs, files in os.walk(path):
        for f in files:
            out.append(os.path.relpath(os.path.join(root, f), path))
    return sorted(out)


def _is_injected(t, e):
    return isinstance(e, (SimSourceError, SimSourceAbort, SimDiskFull))


class _Handler(logging.Handler):
    def __init__(self, retain):
        logging.Handler.__init__(self, logging.DEBUG)
        self.retain = retain
        self.records = []

    def emit(self, record):
        record.getMessage()
        if self.retain:
            self.records.append(record)


def _log_handler(mode):
    h = _Handler(mode == 'retain')
    lg = logging.getLogger('petl')
    lg.addHandler(h)
    lg.setLevel(logging.DEBUG)
    return h


# ---------------------------------------------------------------------------
# interpreter exit: the history runs in a fresh interpreter, which ends
# (falls off the end of the script, or sys.exit()) while the views and
# iterators are still alive.  All users are gone then, so all temp files are.

_EXIT_CHILD = r'''
import json, sys
sys.path.insert(0, %(verif)r)
from checks import c18
c18.exit_child(json.load(open(%(casefile)r)), %(td)r)
'''

_KEEP = []


def exit_child(case, td):
    """Runs in the child interpreter."""
    e = load_petl()
    import petl.config as config
    import tempfile as _tf
    _tf.tempdir = td
    kb = case.get('knobs', {}).get('sort_buffersize')
    if kb is not None:
        config.sort_buffersize = kb
    stack = case['stack']
    w, views = build(e, stack, case['tables'], tempdir=td)
    sch = Sched(list(views), [None] * len(views), items=is_items(stack),
                expect_fault=lambda t, ex: True)
    _KEEP.extend([w, views, sch])       # alive until the interpreter ends
    for op in case['steps']:
        if op[0] in ('ARM', 'DISKFULL', 'DISKFREE', 'GC', 'DROP', 'DROPVIEW',
                     'CLOSE'):
            continue                    # nothing is released before the end
        sch.step(op)
    if case.get('exit') == 'sys.exit':
        sys.exit(0)


def _run_exit_case(case, sb, log, label, group):
    import subprocess
    td = os.path.join(sb.path, 'td')
    os.mkdir(td)
    casefile = os.path.join(sb.path, 'case.json')
    with open(casefile, 'w') as f:
        json.dump(case, f)
    verif = os.path.dirname(os.path.dirname(os.path.abspath(__file__)))
    env = dict(os.environ, TMPDIR=td, PYTHONHASHSEED='0',
               PYTHONDONTWRITEBYTECODE='1')
    p = subprocess.run([sys.executable, '-c', _EXIT_CHILD % {
        'verif': verif, 'casefile': casefile, 'td': td}], env=env,
        stdout=subprocess.PIPE, stderr=subprocess.STDOUT, text=True,
        timeout=300)
    left = _listing(td)
    log.add('exit', p.returncode, left)
    if p.returncode != 0:
        # the history itself failed in the child (e.g. the recipe raises on
        # these tables): nothing to judge
        return outcome('trivial', digest=log.hexdigest(), nontrivial=False,
                       extra={'group': group, 'why': 'child-failed'})
    if left:
        return _viol(case, log, 'temp-file-left-at-exit',
                     '%s: %d temp files are left after the interpreter that '
                     'ran the history has ended (%s): %r'
                     % (label, len(left), case.get('exit'), left), group)
    return outcome('ok', digest=log.hexdigest(), steps=len(case['steps']),
                   nontrivial=True, probes={'interpreter-exit': 1,
                                            'recipe:' + case['stack'][0][0]:
                                            1},
                   states=['%s:exit' % label], extra={'group': group})


def run_case(case):
    e = load_petl()
    import petl.config as config
    import petl.transform.sorts as psorts
    import petl.io.json as pjson
    log = Log()
    stack = case['stack']
    rec = RECIPES[stack[0][0]]
    group = rec.group
    label = '+'.join(s[0] for s in stack)
    if case.get('exit'):
        # (before anything global is touched in this process)
        with devices.TempSandbox() as sb:
            return _run_exit_case(case, sb, Log(), '+'.join(
                st[0] for st in case['stack']),
                RECIPES[case['stack'][0][0]].group)
    saved = config.sort_buffersize
    kb = case.get('knobs', {}).get('sort_buffersize')
    if kb is not None:
        config.sort_buffersize = kb
    uses_diskfull = any(op[0] == 'DISKFULL' for op in case['steps'])
    ctl = _TempCtl()
    # (the seam for ENOSPC: the name NamedTemporaryFile inside the two
    # modules; a tree that creates its files some other way simply gets no
    # disk-full injection there)
    saved_ntf = (getattr(psorts, 'NamedTemporaryFile', None),
                 getattr(pjson, 'NamedTemporaryFile', None))
    logmode = case.get('knobs', {}).get('logging')
    handler = _log_handler(logmode) if logmode else None
    probes = {}
    result = None
    maxfiles = 0
    nsteps = 0
    try:
        with devices.TempSandbox() as sb:
            td = os.path.join(sb.path, 'td')
            os.mkdir(td)
            why = None
            try:
                expected = solo_reference(e, stack, case['tables'],
                                          tempdir=td)
            except Exception as ex:
                why = type(not_a_harness_bug(ex)).__name__
            gc.collect()
            if why is not None:
                return outcome('trivial', digest=log.hexdigest(),
                               nontrivial=False,
                               extra={'group': group, 'why': why})
            left = _listing(sb.path)
            if left:
                return _viol(case, log, 'leak-after-solo-pass',
                             '%s: %d temp files left after a solo pass and '
                             'release: %r' % (label, len(left), left), group)
            if uses_diskfull:
                if saved_ntf[0] is not None:
                    psorts.NamedTemporaryFile = ctl.factory
                if saved_ntf[1] is not None:
                    pjson.NamedTemporaryFile = ctl.factory
            if case.get('enum'):
                result, nsteps, maxfiles = _enumerate(
                    e, case, stack, expected, td, sb, ctl, log, probes,
                    label, group)
            else:
                # (the cyclic collector is off while the history runs, so
                # that it is known when it ran: only at the GC steps)
                # (only for a temp-file view on its own: rows that carry
                # exception objects - an upstream view under 'inline' - are
                # cycles of the interpreter's own making)
                nocycle = not case.get('forked') and gc.isenabled() and \
                    len(stack) == 1 and stack[0][0] in ('fromdicts-gen',
                                                       'sort', 'mergesort')
                if nocycle:
                    gc.disable()
                try:
                    result, nsteps, maxfiles = _history(
                        e, case, stack, expected, td, sb, ctl, log, probes,
                        label, group)
                    # released, the collector not yet run: what petl holds
                    # is freed by reference counting, its files with it
                    left0 = _listing(sb.path) if nocycle else []
                finally:
                    if nocycle:
                        gc.enable()
            gc.collect()
            if result is None and not case.get('enum') and left0 \
                    and not _listing(sb.path):
                result = _viol(case, log, 'temp-file-until-collection',
                               '%s: %d temp files outlived the release of '
                               'the view and all iterators and went only '
                               'when the cyclic garbage collector ran: %r'
                               % (label, len(left0), left0), group)
            if result is None:
                left = _listing(sb.path)
                log.add('left', left)
                if left:
                    result = _viol(case, log, 'temp-file-leak',
                                   '%s: %d temp files still exist after the '
                                   'view and all iterators were released and '
                                   'gc ran: %r' % (label, len(left), left),
                                   group)
                elif devices.CTX.unraisable:
                    result = _viol(case, log, 'exception-in-finaliser',
                                   '%s: %s' % (label,
                                               devices.CTX.unraisable[0]),
                                   group)
    finally:
        config.sort_buffersize = saved
        if saved_ntf[0] is not None:
            psorts.NamedTemporaryFile = saved_ntf[0]
        if saved_ntf[1] is not None:
            pjson.NamedTemporaryFile = saved_ntf[1]
        if handler is not None:
            lg = logging.getLogger('petl')
            lg.removeHandler(handler)
            lg.setLevel(logging.ERROR)
            if handler.records:
                probes['log-records-retained'] = 1
            del handler.records[:]
    if result is not None:
        return result
    if logmode:
        probes['logging:' + logmode] = 1
    probes['recipe:' + stack[0][0]] = 1
    if maxfiles:
        probes['temp-files-seen'] = 1
    if maxfiles >= 3:
        probes['three-or-more-temp-files'] = 1
    return outcome('ok', digest=log.hexdigest(), steps=nsteps,
                   nontrivial=maxfiles > 0, probes=probes,
                   states=['%s:files=%d' % (label, min(maxfiles, 6))],
                   extra={'group': group})


def _history(e, case, stack, expected, td, sb, ctl, log, probes, label,
             group):
    """Runs the history in its own frame: when it returns, no harness
    reference to a view, iterator, row or exception survives."""
    result = None
    maxfiles = 0
    lossy = False
    if stack[0][0] == 'fromdicts-gen' and not any(
            op[0] == 'ARM' for op in case['steps']) and any(
            op[0] == 'DISKFULL' for op in case['steps']):
        # a row taken from the one-shot generator whose spill write failed
        # cannot be fetched again: it is lost to every pass.  Nothing else
        # is: what a pass delivers is a subsequence of the reference, only
        # the injected error is ever raised, and once the disk has space
        # again every pass is complete and equal to the one before
        lossy = True
        tolerant = False
        probes['fromdicts-spill-failed'] = 1
    elif stack[0][0] == 'fromdicts-gen' and any(op[0] in ('ARM', 'DISKFULL')
                                                for op in case['steps']):
        # a generator that raised is finished for good, and a row taken from
        # the one-shot generator whose spill write failed cannot be fetched
        # again: what later passes can still yield is not defined (and the
        # property does not say); only the file lifetime is checked
        expected = [None] * len(expected)
        probes['fromdicts-generator-failed'] = 1
        tolerant = True
    else:
        tolerant = False
    w, views = build(e, stack, case['tables'], tempdir=td,
                     fluent=bool(case.get('fluent')))
    sch = Sched(list(views), expected, log=log, items=is_items(stack),
                expect_fault=(lambda t, ex: True) if tolerant
                else _is_injected, lossy=lossy)
    del views
    try:
        try:
            for op in case['steps']:
                k = op[0]
                if k == 'ARM':
                    if op[1] < len(w.s):
                        w.s[op[1]].arm(op[2], passes=op[3],
                                        kind=op[4] if len(op) > 4 else 'plain')
                        log.add('step', op)
                elif k == 'DISKFULL':
                    ctl.budget = op[1]
                    log.add('step', op)
                elif k == 'DISKFREE':
                    ctl.budget = None
                    log.add('step', op)
                else:
                    if k == 'DROPVIEW' and any(
                            not t.done for t in sch.tasks.values()):
                        probes['view-dropped-while-iterating'] = 1
                    sch.step(op)
                maxfiles = max(maxfiles, len(_listing(sb.path)))
            # faults stop; every view still held must serve a complete pass
            for s in w.s:
                if hasattr(s, 'disarm'):
                    s.disarm()
            ctl.budget = None
            for vi in range(len(sch.views)):
                if sch.views[vi] is not None:
                    t1 = sch.fresh(vi, label='recovery%d' % vi)
                    probes['recovery-pass'] = 1
                    if lossy:
                        t2 = sch.fresh(vi, label='recovery%d-again' % vi)
                        if t1.failed or t2.failed or t1.rows != t2.rows:
                            raise Violation(
                                'fresh-pass-rows-diverge',
                                'with space on the disk again, two passes '
                                'in a row gave %s (%s) and %s (%s)'
                                % (show_rows(t1.rows), t1.failed,
                                   show_rows(t2.rows), t2.failed))
                        del t2
                    del t1
            maxfiles = max(maxfiles, len(_listing(sb.path)))
            # surviving iterators are complete too
            if any(not t.done and sch.views[t.vi] is None
                   for t in sch.tasks.values()):
                probes['iterator-outlived-view'] = 1
            for tid in sorted(sch.tasks):
                if not sch.tasks[tid].done:
                    sch.step(['DRAIN', tid])
        except Violation as v:
            sig = {'recipe': label,
                   'vclass': v.vclass.replace('fresh-pass-', '')}
            if 'exc' in v.sig:
                sig['exc'] = v.sig['exc']
            result = outcome('violation', vclass=v.vclass,
                             msg=label + ': ' + v.msg, sig=sig,
                             digest=log.hexdigest(), steps=sch.nsteps,
                             extra={'group': group})
        nsteps = sch.nsteps
        if any(t.failed for t in sch.tasks.values()):
            probes['iterator-failed-by-injection'] = 1
    finally:
        # quiescence: release everything
        sch.tasks.clear()
        sch.views = []
        w.close()
    return result, nsteps, maxfiles


def _mini_histories(nrows_out, nsrc_rows, kind):
    """Every abandonment point x release order, and a failure at every
    source row."""
    out = []
    for k in range(0, nrows_out + 2):
        adv = [['ITER', 't0', 0]] + ([['BURST', 't0', k]] if k else [])
        out.append(adv + [['DROP', 't0'], ['DROPVIEW', 0]])
        out.append(adv + [['DROPVIEW', 0], ['DROP', 't0']])
        out.append(adv + [['CLOSE', 't0'], ['DROPVIEW', 0], ['DROP', 't0']])
        out.append(adv + [['DROPVIEW', 0], ['GC'], ['DRAIN', 't0']])
        out.append([['ITER', 't0', 0], ['ITER', 't1', 0]] +
                   ([['BURST', 't0', k]] if k else []) +
                   [['NEXT', 't1'], ['DROP', 't0'], ['DROPVIEW', 0],
                    ['DRAIN', 't1']])
    for si, n in enumerate(nsrc_rows):
        for i in range(0, n + 2):
            out.append([['ARM', si, i, 1, kind], ['ITER', 't0', 0],
                        ['DRAIN', 't0'], ['ITER', 't1', 0], ['NEXT', 't1'],
                        ['DROPVIEW', 0]])
    return out


def _enumerate(e, case, stack, expected, td, sb, ctl, log, probes, label,
               group):
    minis = _mini_histories(len(expected[0]),
                            [len(t) - 1 for t in case['tables']],
                            case['enum'])
    total = 0
    maxfiles = 0
    for steps in minis:
        sub = dict(case, steps=steps)
        result, nsteps, mf = _history(e, sub, stack, expected, td, sb, ctl,
                                      log, {}, label, group)
        gc.collect()
        total += nsteps
        maxfiles = max(maxfiles, mf)
        if result is None:
            left = _listing(sb.path)
            if left:
                result = _viol(case, log, 'temp-file-leak',
                               '%s: after the history %r, %d temp files '
                               'still exist: %r' % (label, steps, len(left),
                                                    left), group)
        if result is not None:
            result['msg'] = '%s [enumerated history %r]' % (result['msg'],
                                                            steps)
            return result, total, maxfiles
    probes['enumerated-histories'] = len(minis)
    probes['enumeration-cases'] = 1
    return None, total, maxfiles


def _viol(case, log, vclass, msg, group):
    label = '+'.join(s[0] for s in case['stack'])
    return outcome('violation', vclass=vclass, msg=msg,
                   sig={'recipe': label, 'vclass': vclass},
                   digest=log.hexdigest(), extra={'group': group})


def warmup():
    load_petl()


def shrink_candidates(case):
    return shrink_common(case)


def selfcheck(agg):
    if agg['truncated'] or agg['evaluations'] < 5000:
        return []
    errs = []
    for p in ('temp-files-seen', 'iterator-outlived-view', 'recovery-pass',
              'enumeration-cases',
              'view-dropped-while-iterating', 'iterator-failed-by-injection'):
        if not agg['probes'].get(p):
            errs.append('probe never hit: ' + p)
    for f in ('source-raise', 'disk-full'):
        if not agg['fired'].get(f):
            errs.append('fault kind never fired: ' + f)
    return errs
