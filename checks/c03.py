"""C03 - transformations never modify their inputs or rows already delivered.

Temporal safety invariant monitored while C01-style schedules run on aliasing
sources (lists of mutable lists; the stored row objects themselves are handed
to every iterator):  G( sources == snapshot  and  mutable arguments ==
snapshot  and  every delivered row == its canonical form at delivery )."""
import gc

from sim import devices
from sim.canon import (Log, snapshot, canon_row, canon_cell, dec_table,
                       enc_table)
from sim.catalogue import RECIPES, NAMES, cut_after_conflicts
from sim.core import outcome, draw_config, not_a_harness_bug
from sim.gen import gen_table, gen_sorted_table
from sim.loader import load_petl
from sim.sched import Sched, Violation, gen_schedule
from sim.viewcase import build, solo_reference, is_items, shrink_common

PROP = 'C03'
LEVEL = 'exploration'
RULE = ('case = (recipe stack of 1..3 views, argument variant, 1..2 aliasing '
        'source tables of mutable lists (ragged rows in ~20%), schedule of '
        'iterator steps over 1..3 tasks incl. partial iteration and '
        'abandonment, a final consumer such as lookup/columns/look/tocsv). '
        'After construction and after every step the deep snapshots of all '
        'sources and mutable arguments and the canonical form of every row '
        'delivered so far are re-compared. Non-trivial: the solo reference '
        'did not raise and at least one data row was delivered. Distinct: by '
        'digest of the whole case.')
STATES = ('recipe stack x final consumer x multiset of iterator position '
          'buckets, sampled after every step')
COMPONENTS = {
    'real': ['petl views and consumers (lookup, columns, look, tocsv, nrows)'],
    'stub': ['SimTable in alias mode (yields the stored list objects)',
             'SimStore sink for tocsv'],
}
ASSUMPTIONS = [
    'the harness never mutates a delivered row or a source itself',
    'mutation is observed through canonical snapshots (type name + repr per '
    'cell, container types kept), so a mutation that leaves repr unchanged '
    'is not visible',
]

C03_NAMES = [n for n in NAMES if RECIPES[n].nsrc >= 1
             and (not RECIPES[n].group.startswith('io.')
                  or n.startswith('tee'))
             and n not in ('facet',)]
STACKABLE = [n for n in C03_NAMES if RECIPES[n].stackable]
CONSUMERS = ['none', 'none', 'listoflists', 'lookup', 'dictlookup',
             'recordlookup', 'columns', 'lookstr', 'tocsv', 'nrows',
             'valuecounter', 'header', 'facetcolumns', 'topickle', 'tojson',
             'see', 'repr_html', 'issorted', 'stats', 'rowgroupby']


def budget(tier):
    if tier == 'quick':
        return {'cases': 30000, 'wall_cap_s': 240}
    return {'cases': 700000, 'wall_cap_s': 1500}


C03_PAIRS = [(n, i) for n in C03_NAMES
             for i in range(len(RECIPES[n].variants))]


def gen_case(rng, tier, g):
    maxrows = 8 if tier == 'quick' else 12
    name = rng.choice(C03_NAMES)
    vi0 = None
    if rng.random() < 0.7:
        # round robin over every (recipe, argument variant) pair
        name, vi0 = C03_PAIRS[g % len(C03_PAIRS)]
    passthrough = False
    if rng.random() < 0.15:
        # views that hand the source's own row objects through unchanged
        # make whatever sits on top of them work on the caller's rows
        name = rng.choice(['wrap', 'skip', 'skipcomments', 'progress',
                           'clock', 'cache', 'head', 'rowslice', 'select',
                           'cat'])
        passthrough = True
    rec = RECIPES[name]
    stack = [[name, rng.randrange(len(rec.variants))]]
    if vi0 is not None and not passthrough:
        stack[0][1] = vi0
    if not rec.items and not rec.multi and (passthrough
                                            or rng.random() < 0.35):
        for _ in range(rng.choice([1, 1, 2])):
            n2 = rng.choice(STACKABLE)
            stack.append([n2, rng.randrange(len(RECIPES[n2].variants))])
    # (Conflict sets: their text form depends on the interpreter's hash
    # seed; nothing is built on them)
    cut_after_conflicts(stack)
    nf = rng.randint(3, 5) if (rec.rect or rng.random() < 0.6) else None
    tables = []
    for _ in range(rec.nsrc):
        if rec.profile == 'sorted':
            t = enc_table(gen_sorted_table(rng.randint(1, maxrows), 5,
                                           stride=len(tables) + 1))
        elif rec.profile == 'containers' or (rec.profile is None
                                           and rng.random() < 0.1):
            t = gen_table(rng, maxrows, minrows=1, profile='containers',
                          nfields=max(nf or 4, 4))
        elif rec.profile == 'textish':
            t = gen_table(rng, maxrows, minrows=1, profile='default',
                          nfields=5)
        else:
            t = gen_table(rng, maxrows, minrows=1, nfields=nf,
                          ragged=False if rec.rect else None)
        tables.append(t)
    if rec.profile != 'sorted' and tables and rng.random() < 0.12:
        # a blank line in the data: a row whose cells all equal the usual
        # `missing` filler (None, or '' for the recipes run with missing='')
        t = tables[rng.randrange(len(tables))]
        if len(t) > 1:
            t.insert(rng.randint(1, len(t)),
                     [rng.choice([None, None, ''])] * len(t[0]))
    nviews = 2 if rec.multi else 1
    steps, shape = gen_schedule(rng, nviews=nviews,
                                ntasks=rng.choice([1, 2, 2, 3]),
                                maxsteps=30,
                                nrows_hint=max(len(tables[0]) - 1, 2))
    if any(n.startswith(('sort', 'cache')) or n.endswith('sort')
           for n, _ in stack) and rng.random() < (
               0.6 if stack[0][0] == 'cache' else 0.3):
        for _ in range(rng.choice([1, 1, 2])):
            steps.insert(rng.randint(0, len(steps)),
                         ['CLEARCACHE', rng.randrange(nviews),
                          rng.choice([0, 0, 1])])
    return {'prop': PROP, 'stack': stack, 'tables': tables, 'steps': steps,
            # the sources are simulated tables handing out the caller's row
            # objects, or the caller's plain lists themselves
            'fluent': rng.random() < 0.15,
            'src': rng.choice(['sim', 'plain'] if stack[0][0] == 'cache'
                              else ['sim', 'sim', 'plain']),
            'shape': shape, 'consumer': rng.choice(CONSUMERS),
            'config': draw_config(rng, 0.1, exclude=('sort_buffersize',)),
            'wrap': rng.choice([True, 'cat']) if rng.random() < 0.2
            else False,
            'knobs': {'sort_buffersize': rng.choice([None, None, 2])}}


def _consume(e, kind, view, world):
    if kind == 'none':
        return
    if kind == 'listoflists':
        e.listoflists(view)
    elif kind == 'lookup':
        e.lookup(view, 0)
    elif kind == 'dictlookup':
        e.dictlookup(view, 0)
    elif kind == 'recordlookup':
        e.recordlookup(view, 0)
    elif kind == 'columns':
        e.columns(view)
    elif kind == 'facetcolumns':
        e.facetcolumns(view, 0)
    elif kind == 'lookstr':
        str(e.look(view))
    elif kind == 'see':
        str(e.see(view))
    elif kind == 'repr_html':
        e.wrap(view)._repr_html_()
    elif kind == 'tocsv':
        e.tocsv(view, world.store.source('out.csv'))
    elif kind == 'topickle':
        e.topickle(view, world.store.source('out.p'))
    elif kind == 'tojson':
        e.tojson(view, world.store.source('out.json'), default=repr)
    elif kind == 'nrows':
        e.nrows(view)
    elif kind == 'valuecounter':
        e.valuecounter(view, 0)
    elif kind == 'header':
        e.header(view)
    elif kind == 'issorted':
        e.issorted(view, 0)
    elif kind == 'stats':
        e.stats(view, 0)
    elif kind == 'rowgroupby':
        for k, grp in e.rowgroupby(view, 0):
            list(grp)


def run_case(case):
    e = load_petl()
    import petl.config as config
    log = Log()
    stack = case['stack']
    rec = RECIPES[stack[0][0]]
    group = rec.group
    label = '+'.join(s[0] for s in stack)
    saved = config.sort_buffersize
    kb = case.get('knobs', {}).get('sort_buffersize')
    if kb is not None:
        config.sort_buffersize = kb
    probes = {}
    result = None
    try:
        with devices.TempSandbox() as sb:
            why = None
            try:
                expected = solo_reference(e, stack, case['tables'],
                                          tempdir=sb.path,
                                          wrap_sources=case.get('wrap',
                                                                False))
            except Exception as ex:
                why = type(not_a_harness_bug(ex)).__name__
            if why is not None:
                gc.collect()
                # an evaluation that fails is a partial evaluation: the
                # inputs are as they were
                tables = [dec_table(t) for t in case['tables']]
                snap_src = snapshot(tables)
                w = None
                try:
                    w, views = build(e, stack, None,
                                     mode='plain' if case.get('src') ==
                                     'plain' else 'alias', tempdir=sb.path,
                                     tables=tables,
                                     wrap_sources=case.get('wrap', False))
                    for v in views:
                        for _ in iter(v):
                            pass
                except Exception:
                    pass
                finally:
                    views = v = None
                    if w is not None:
                        w.close()
                probes['failing-evaluation'] = 1
                if rec.fails:
                    probes['recipe:' + stack[0][0]] = 1
                if snapshot(tables) != snap_src:
                    return outcome(
                        'violation', vclass='source-mutated',
                        msg='%s: the evaluation fails (%s) and leaves a '
                        'source changed: now %r, was %r'
                        % (label, why, tables,
                           [dec_table(t) for t in case['tables']]),
                        sig={'recipe': label, 'vclass': 'source-mutated'},
                        digest=log.hexdigest(), extra={'group': group})
                return outcome('trivial', digest=log.hexdigest(),
                               nontrivial=False, probes=probes,
                               extra={'group': group, 'why': why})
            tables = [dec_table(t) for t in case['tables']]
            snap_src = snapshot(tables)
            w, views = build(e, stack, None,
                             fluent=bool(case.get('fluent')),
                             mode='plain' if case.get('src') == 'plain'
                             else 'alias', tempdir=sb.path,
                             tables=tables,
                             wrap_sources=case.get('wrap', False))
            # (as they were when handed to petl, i.e. before construction)
            snap_args = ('list', tuple(w.arg_snaps))
            # inputs that are views themselves: what they yield is part of
            # "every source container"
            def _input_views():
                if not case.get('wrap'):
                    return None
                out = []
                for s_ in w.s:
                    try:
                        out.append([canon_row(r) for r in iter(s_)])
                    except Exception as ex:
                        out.append(type(ex).__name__)
                return out
            # (before: from views of the same kind over private copies of
            # the tables - construction of the pipeline may already have
            # touched the real ones)
            snap_views = None
            if case.get('wrap'):
                snap_views = []
                for t_ in case['tables'][:len(w.s)]:
                    t_ = dec_table(t_)
                    try:
                        v_ = e.cat(t_) if case['wrap'] == 'cat' \
                            else e.wrap(t_)
                        snap_views.append([canon_row(r) for r in iter(v_)])
                    except Exception as ex:
                        snap_views.append(type(ex).__name__)
            items = is_items(stack)
            canon = canon_cell if items else canon_row

            def check(where):
                if snapshot(tables) != snap_src:
                    raise Violation(
                        'source-mutated',
                        '%s: a source container/row/cell changed %s: now %r, '
                        'was %r' % (label, where, tables,
                                    [dec_table(t) for t in case['tables']]))
                if snapshot(w.args) != snap_args:
                    raise Violation(
                        'arg-mutated', '%s: a mutable argument changed %s: '
                        'now %r' % (label, where, w.args))

            sch = Sched(views, expected, log=log, items=items,
                        keep_objs=True)

            states = set()

            def after(s, op):
                states.add('%s:%s:%s' % (label, case.get('consumer'),
                                         s.position_state()))
                check('after step %r' % (op,))
                for t in list(s.tasks.values()) + done_tasks:
                    for i, obj in enumerate(t.objs):
                        if canon(obj) != t.rows[i]:
                            raise Violation(
                                'delivered-row-mutated',
                                '%s: row %d delivered to iterator %s was %r '
                                'and is now %r after step %r'
                                % (label, i, t.tid, t.rows[i], canon(obj),
                                   op))
            done_tasks = []
            sch.after_step = after
            try:
                try:
                    check('by constructing the pipeline')
                    # DROP would discard the rows we want to keep examining
                    for op in case['steps']:
                        if op[0] == 'DROP' and op[1] in sch.tasks:
                            done_tasks.append(sch.tasks[op[1]])
                        sch.step(op)
                    for vi in range(len(views)):
                        _consume(e, case.get('consumer', 'none'), views[vi],
                                 w)
                        after(sch, ['CONSUME', case.get('consumer'), vi])
                        done_tasks.append(sch.fresh(vi))
                        after(sch, ['FRESH', vi])
                    if snap_views is not None:
                        now_views = _input_views()
                        if now_views != snap_views:
                            raise Violation(
                                'input-view-changed',
                                '%s: a view handed in as an input yields %r '
                                'after the evaluation, %r before'
                                % (label, now_views, snap_views))
                        probes['input-views-compared'] = 1
                    # the caller goes on using the mutable objects it passed
                    # as arguments (adds a mapping, extends a header list):
                    # rows already collected are not views of them
                    touched = 0
                    for a in w.args:
                        if isinstance(a, dict):
                            a['added-afterwards'] = 'x'
                        elif isinstance(a, list):
                            a.append('added-afterwards')
                        elif isinstance(a, set):
                            a.add('added-afterwards')
                        else:
                            continue
                        touched += 1
                    if touched:
                        probes['arguments-edited-afterwards'] = 1
                        for t in list(sch.tasks.values()) + done_tasks:
                            for i, obj in enumerate(t.objs):
                                if canon(obj) != t.rows[i]:
                                    raise Violation(
                                        'delivered-row-follows-argument',
                                        '%s: row %d delivered to iterator '
                                        '%s was %r and became %r when the '
                                        'caller edited an argument object '
                                        'after the pass'
                                        % (label, i, t.tid, t.rows[i],
                                           canon(obj)))
                except Violation as v:
                    sig = {'recipe': label,
                           'vclass': v.vclass.replace('fresh-pass-', '')}
                    if 'exc' in v.sig:
                        sig['exc'] = v.sig['exc']
                    result = outcome('violation', vclass=v.vclass,
                                     msg=label + ': ' + v.msg, sig=sig,
                                     digest=log.hexdigest(),
                                     steps=sch.nsteps, extra={'group': group})
                except Exception as ex:
                    # a consumer raised where the views did not: not C03's
                    # business unless it is a mutation; count it
                    probes['consumer-raised:' + type(ex).__name__] = 1
                delivered = sch.rows_delivered
                nsteps = sch.nsteps
            finally:
                done_tasks[:] = []
                sch.tasks.clear()
                sch.views = []
                w.close()
                del views, sch
                gc.collect()
    finally:
        config.sort_buffersize = saved
    if result is not None:
        return result
    probes['recipe:' + stack[0][0]] = 1
    probes['consumer:' + case.get('consumer', 'none')] = 1
    return outcome('ok', digest=log.hexdigest(), steps=nsteps,
                   nontrivial=delivered > 1 and len(expected[0]) >= 2,
                   probes=probes, states=sorted(states),
                   extra={'group': group})


def warmup():
    load_petl()


def shrink_candidates(case):
    for c in shrink_common(case):
        yield c
    if case.get('consumer', 'none') != 'none':
        c = dict(case)
        c['consumer'] = 'none'
        yield c


def selfcheck(agg):
    if agg['truncated'] or agg['evaluations'] < 5000:
        return []
    missing = [n for n in C03_NAMES if 'recipe:' + n not in agg['probes']]
    return ['recipes never ran: %s' % missing] if missing else []


def evidence_extra(tier):
    return {'recipes_in_scope': len(C03_NAMES), 'consumers': sorted(
        set(CONSUMERS))}
