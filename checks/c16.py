"""C16 - pass-through views are transparent; a consumed tee writes what to*
writes.

Three machines on simulated devices:
  tee    : tee{csv,tsv,pickle,text,html} on a SimStore sink vs the matching
           to* on a second sink: rows yielded == wrapped rows, bytes equal,
           after a full pass, after a partial pass followed by a full pass,
           and after a second full pass; no handle left open.
  timing : progress / log_progress / clock under a simulated clock with
           stalls, forward and backward jumps and coarse resolution.
  cache  : cache(n) and wrap under iterator schedules."""
import gc
import io
import logging

from sim import devices
from sim.canon import Log, dec_table, enc, canon_rows, canon_row
from sim.core import outcome, ddmin_lists, draw_config
from sim.devices import (SimStore, SimClock, SimTable, SimDiskFull,
                         SOURCE_ERROR_KINDS)
from sim.gen import gen_table, FIELDS
from sim.loader import load_petl
from sim.sched import Sched, Violation, gen_schedule

PROP = 'C16'
LEVEL = 'exploration'
RULE = ('case = one of three machines. tee: format x drawn arguments '
        '(write_header, encoding, csv dialect, pickle protocol incl. 0 and '
        'None, text template/prologue/epilogue, html caption/lineterminator/'
        'index_header/truncate) x table (ragged rows, header-only, special '
        'characters) x history (full pass | partial pass abandoned by '
        'close/drop then full pass | two full passes). timing: progress / '
        'log_progress / clock x batchsize in {1,2,n-1,n,n+1,1000} x clock '
        'script (per-reading advance, stall, forward jump, backward jump, '
        'coarse resolution) x 1..2 interleaved consumers. cache: cache(n) '
        'for n in {None,0,1,k-1,k,k+1} and wrap under a schedule of 2..3 '
        'iterators. Non-trivial: the to* reference did not raise (tee) and '
        'the table has at least one data row. Distinct: by digest of the '
        'whole case.')
STATES = ('tee: format x history x encoding; timing: kind x batchsize '
          'class x clock script kinds; cache: view x n x schedule shape')
COMPONENTS = {
    'real': ['petl tee*/to* writers, TextIOWrapper/codecs, csv, pickle',
             'petl progress/log_progress/clock', 'petl cache/wrap'],
    'stub': ['SimStore sinks', 'SimClock replacing the time module inside '
             'petl.util.timing (no real sleep, no real clock)',
             'SimTable sources'],
}
ASSUMPTIONS = [
    'tables always have a header row (petl convention); a tee is compared '
    'only after it has been iterated to the end, as the property states',
    'a to* call that raises for the drawn table/arguments makes the case '
    'inapplicable',
]

SPECIAL = ['x', 'y z', 'a,b', 'q"uote', "s'q", 'l1\nl2', 'cr\rx', 'é', '€',
           '\U0001F600', '', ' ', '\t', 'a|b', '<b>&amp;', '{x}', '%s']
ENCODINGS = [None, 'utf-8', 'utf-16', 'latin-1', 'utf-8-sig', 'ascii',
             'utf-32']


def budget(tier):
    if tier == 'quick':
        return {'cases': 30000, 'wall_cap_s': 240}
    return {'cases': 2000000, 'wall_cap_s': 1500}


def _text_table(rng, maxrows, ragged_ok=True):
    nf = rng.randint(1, 4)
    hdr = list(FIELDS[:nf])
    if rng.random() < 0.12:
        # field names need not be text
        hdr[rng.randrange(nf)] = rng.choice([None, 7, 2.5, True, ''])
    n = rng.randint(0, maxrows)
    rows = [list(hdr)]
    if rng.random() < 0.03:
        # a header row without fields, followed by data rows (a csv file
        # whose first line is blank)
        return [[]] + [[enc(rng.choice(SPECIAL + [1, None]))
                        for _ in range(rng.randint(0, 2))]
                       for _ in range(rng.randint(0, 3))]
    if rng.random() < 0.04:
        # a table that yields nothing at all, not even a header (an empty
        # list, fromcsv of an empty file): to* and tee* both accept it
        return []
    ragged = ragged_ok and rng.random() < 0.25
    for _ in range(n):
        row = [rng.choice(SPECIAL + [1, 2.5, None, True]) for _ in hdr]
        if ragged and rng.random() < 0.4:
            row = row[:rng.randint(0, nf)] if rng.random() < 0.7 \
                else row + ['extra']
        rows.append(row)
    return [[enc(c) for c in r] for r in rows]


def gen_case(rng, tier, g):
    m = rng.random()
    maxrows = 6 if tier == 'quick' else 10
    if m < 0.55:
        fmt = rng.choice(['csv', 'csv', 'tsv', 'pickle', 'text', 'html'])
        args = {}
        if fmt in ('csv', 'tsv'):
            args['write_header'] = rng.random() < 0.7
            args['encoding'] = rng.choice(ENCODINGS)
            if rng.random() < 0.3:
                args['errors'] = rng.choice(['replace', 'backslashreplace',
                                             'xmlcharrefreplace'])
            if fmt == 'csv' and rng.random() < 0.4:
                args['delimiter'] = rng.choice([';', '|', ' ', '\t'])
            if rng.random() < 0.3:
                args['quotechar'] = rng.choice(["'", '|', '"'])
            if rng.random() < 0.4:
                args['quoting'] = rng.choice([0, 1, 2])
            if rng.random() < 0.3:
                args['lineterminator'] = rng.choice(['\n', '\r\n', '\r'])
            r = rng.random()
            if r < 0.1:
                # further csv.writer arguments travel through **csvargs
                args['escapechar'] = '\\'
                args['doublequote'] = False
            elif r < 0.2:
                args['escapechar'] = '\\'
                args['quoting'] = 3          # QUOTE_NONE
            elif r < 0.3:
                args['dialect'] = rng.choice(['unix', 'excel-tab', 'excel'])
        elif fmt == 'pickle':
            args['write_header'] = rng.random() < 0.7
            args['protocol'] = rng.choice([-1, 0, 1, 2, 3, 4, 5, None])
        elif fmt == 'text':
            args['template'] = rng.choice(['{a}\n', '{a}|{b}\n', '{a}',
                                           'row: {a!r}\n',
                                           # a field used only inside the
                                           # format spec of another (here as
                                           # the fill character)
                                           '{a!s:{b!s:.1}>4}|\n'])
            args['prologue'] = rng.choice([None, 'BEGIN\n', ''])
            args['epilogue'] = rng.choice([None, 'END\n', ''])
            args['encoding'] = rng.choice(ENCODINGS)
        else:
            args['caption'] = rng.choice([None, 'cap', 'c<&>'])
            args['encoding'] = rng.choice(ENCODINGS)
            args['lineterminator'] = rng.choice(['\n', '\r\n', ''])
            args['index_header'] = rng.random() < 0.3
            args['truncate'] = rng.choice([None, None, 2])
            if rng.random() < 0.3:
                args['errors'] = 'xmlcharrefreplace'
            if rng.random() < 0.3:
                args['vrepr'] = rng.choice(['repr', 'upper'])
            if rng.random() < 0.3:
                args['tr_style'] = rng.choice(['color: red', '@first',
                                               '@len', '@byname', '@byname'])
            if rng.random() < 0.3:
                args['td_styles'] = rng.choice(['font: x', '@value',
                                                '@dict-str', '@dict-fn',
                                                '@dict-hdr', '@dict-hdr'])
        table = _text_table(rng, maxrows)
        if fmt == 'pickle' and len(table) > 1 and rng.random() < 0.3:
            # values that pickle by reference to a builtin (whose module was
            # renamed between Python 2 and 3: protocols 0-2 name it)
            r_ = table[rng.randrange(1, len(table))]
            if r_:
                r_[rng.randrange(len(r_))] = enc(rng.choice(
                    [frozenset([1, 2]), {3}, complex(1, -2),
                     bytearray(b'ab'), range(3), b'', b'by']))
        n = len(table) - 1
        history = rng.choice(['full', 'full', 'partial-close-full',
                              'partial-drop-full', 'full-full',
                              'partial-partial-full', 'sinkfail-full',
                              'full-shrink-full', 'full-permute-full',
                              'partial-full-close', 'partial-full-drop',
                              'srcfail-full'])
        interp = None
        if fmt != 'pickle' and rng.random() < 0.012:
            # an interpreter whose default text encoding is not UTF-8, and
            # the encoding argument left to that default
            interp = {'LC_ALL': 'C', 'LANG': 'C', 'PYTHONUTF8': '0',
                      'PYTHONCOERCECLOCALE': '0'}
            if 'encoding' in args:
                args['encoding'] = None
            args.setdefault('errors', 'replace')
            history = 'full'
        return {'prop': PROP, 'machine': 'tee', 'fmt': fmt, 'args': args,
                'interp_env': interp,
                'config': draw_config(rng, 0.25, exclude=('sort_buffersize',)),
                'table': table, 'history': history,
                'partial': rng.randint(0, n + 1),
                'budget': rng.choice([0, 1, 5, 20, 60, 200]),
                'fluent': rng.random() < 0.15,
                'drop': rng.choice([1, 1, 2, 5]),
                'srckind': rng.choice(SOURCE_ERROR_KINDS),
                # (not under a straddling iterator: MemorySource closes the
                # buffer of an earlier writer when it is opened again, so
                # releasing that writer raises - by design of that source)
                'peek': rng.random() < 0.5,
                'sink': rng.choice(['sim', 'sim', 'memory'])
                if history not in ('sinkfail-full', 'partial-full-close',
                                   'partial-full-drop') else 'sim',
                'rowtype': rng.choice(['copy', 'alias'])}
    if m < 0.8:
        kind = rng.choice(['progress', 'progress', 'log_progress', 'clock'])
        table = gen_table(rng, 12, nfields=rng.randint(1, 3))
        if rng.random() < 0.04:
            # a table that yields nothing at all, not even a header
            table = []
        n = max(len(table) - 1, 0)
        script = []
        for _ in range(rng.randint(1, 8)):
            r = rng.random()
            if r < 0.45:
                script.append(['adv', rng.choice([0, 1, 1, 3, 10, 250, 5000])])
            elif r < 0.7:
                script.append(['stall', 0])
            elif r < 0.85:
                script.append(['fwd', rng.choice([1, 1000, 3600000])])
            else:
                script.append(['back', rng.choice([1, 50, 1000, 86400000])])
        return {'prop': PROP, 'machine': 'timing', 'kind': kind,
                'table': table,
                'batchsize': rng.choice([1, 2, max(1, n - 1), max(1, n),
                                         n + 1, 1000]),
                'script': script, 'resolution': rng.choice([None, None, 10,
                                                            1000]),
                'latency': [rng.choice([0, 1, 5, 100])
                            for _ in range(rng.randint(1, 3))],
                'consumers': rng.choice([1, 1, 2]),
                'level': rng.choice([logging.INFO, logging.INFO,
                                     logging.DEBUG, logging.WARNING]),
                'arm': [rng.randint(0, n + 1),
                        rng.choice(SOURCE_ERROR_KINDS)]
                if rng.random() < 0.3 else None,
                'prefix': rng.choice(['', 'p: ', 'load (100%): ', '%s %d',
                                      '{0} {x}', 'é: '])}
    table = gen_table(rng, maxrows + 2, nfields=rng.randint(1, 3))
    k = len(table)            # rows including the header
    n = rng.choice([None, 0, 1, max(1, k - 1), k, k + 1, 2])
    steps, shape = gen_schedule(rng, nviews=1, maxsteps=40,
                                nrows_hint=max(k - 1, 2))
    if rng.random() < 0.2:
        # cache() can be told to forget what it holds at any moment
        for _ in range(rng.choice([1, 1, 2])):
            steps.insert(rng.randint(0, len(steps)), ['CLEARCACHE', 0, 0])
    return {'prop': PROP, 'machine': 'cache', 'view': rng.choice(
        ['cache', 'cache', 'cache', 'wrap', 'wrap-of-cache']), 'n': n,
        'table': table,
        'steps': steps, 'shape': shape}


# ---------------------------------------------------------------------------

class _Bad(Exception):
    def __init__(self, vclass, msg):
        Exception.__init__(self, msg)
        self.vclass = vclass
        self.msg = msg


def _hdr_of(table):
    rows = getattr(table, 'rows', None)
    return list(rows[0]) if rows else []


def _style_by_name(rec):
    try:
        return 'a: %s; %s' % (rec['a'], getattr(rec, 'b', 'no-b'))
    except Exception as ex:
        return 'err: %s' % type(ex).__name__


def _html_args(a, hdr=()):
    # callables travel by name in the (JSON) case
    if a.get('vrepr') == 'repr':
        a['vrepr'] = repr
    elif a.get('vrepr') == 'upper':
        a['vrepr'] = lambda v: str(v).upper()
    if a.get('tr_style') == '@first':
        a['tr_style'] = lambda rec: 'x: %s' % (rec[0],) if len(rec) else ''
    elif a.get('tr_style') == '@len':
        a['tr_style'] = lambda rec: 'n: %d' % len(rec)
    elif a.get('tr_style') == '@byname':
        # the documented use: the function is handed a record and looks
        # values up by field name / as attributes
        a['tr_style'] = _style_by_name
    ts = a.get('td_styles')
    if ts == '@value':
        a['td_styles'] = lambda v: 'v: %s' % (v,) if v else ''
    elif ts == '@dict-str':
        a['td_styles'] = {'a': 'col: a', 'zz': 'never'}
    elif ts == '@dict-hdr':
        # keyed by the field objects of the table themselves (which need
        # not be text)
        a['td_styles'] = dict((h, 'col: %s' % (h,)) for i, h in enumerate(hdr)
                              if isinstance(h, (str, int, float, bool,
                                                type(None))))
    elif ts == '@dict-fn':
        a['td_styles'] = {'a': lambda v: 'len: %d' % len(str(v)),
                          'b': 'col: b'}
    return a


def _to(e, fmt, table, src, args):
    a = dict(args)
    if fmt == 'html':
        a = _html_args(a, _hdr_of(table))
    if fmt == 'csv':
        e.tocsv(table, src, **a)
    elif fmt == 'tsv':
        e.totsv(table, src, **a)
    elif fmt == 'pickle':
        e.topickle(table, src, **a)
    elif fmt == 'text':
        e.totext(table, src, **a)
    else:
        e.tohtml(table, src, **a)


_FLUENT = [False]


def _tee(e, fmt, table, src, args):
    if _FLUENT[0]:
        # table.teecsv(...) instead of petl.teecsv(table, ...)
        from sim.loader import Fluent
        e = Fluent(e)
    a = dict(args)
    if fmt == 'html':
        a = _html_args(a, _hdr_of(table))
    if fmt == 'csv':
        return e.teecsv(table, src, **a)
    if fmt == 'tsv':
        return e.teetsv(table, src, **a)
    if fmt == 'pickle':
        return e.teepickle(table, src, **a)
    if fmt == 'text':
        return e.teetext(table, src, **a)
    return e.teehtml(table, src, **a)


def _run_tee(e, case, log):
    _FLUENT[0] = bool(case.get('fluent'))
    fmt, args = case['fmt'], case['args']
    rows = dec_table(case['table'])
    ref_store = SimStore()
    try:
        _to(e, fmt, SimTable([list(r) for r in rows],
                             mode=case.get('rowtype', 'copy')),
            ref_store.source('ref'), args)
    except Exception as ex:
        return None, type(ex).__name__
    want_bytes = ref_store.files['ref']
    want_rows = canon_rows(rows)
    store = SimStore()
    src = SimTable([list(r) for r in rows], mode=case.get('rowtype', 'copy'))
    mem = None
    if case.get('sink') == 'memory':
        # petl's own in-memory target, reused by every pass of the view
        mem = e.MemorySource()
        view = _tee(e, fmt, src, mem, args)
    else:
        view = _tee(e, fmt, src, store.source('tee'), args)
    what = 'tee%s(%r)' % (fmt, args)
    state = {'bytes': want_bytes, 'rows': want_rows}

    def sink_bytes():
        if mem is not None:
            return mem.getvalue()
        return store.files.get('tee')

    def full(label, allow_open=0):
        got = []
        it = iter(view)
        try:
            for r in it:
                got.append(canon_row(r))
                if mem is not None and len(got) == 1 and case.get('peek'):
                    # the consumer looks at the in-memory target while the
                    # pass is under way (a progress display); what it sees
                    # then says nothing about the end
                    mem.getvalue()
        except Exception as ex:
            raise _Bad('tee-raised', '%s %s raised %s: %s after %d rows; '
                       'to%s writes the table without an error'
                       % (what, label, type(ex).__name__, ex, len(got), fmt))
        del it
        log.add('pass', label, got)
        if got != state['rows']:
            raise _Bad('rows-differ', '%s %s: yielded %r, the wrapped table '
                       'has %r' % (what, label, got, state['rows']))
        have = sink_bytes()
        if have != state['bytes']:
            raise _Bad('bytes-differ', '%s %s: the sink holds %r, to%s '
                       'writes %r' % (what, label, have, fmt,
                                      state['bytes']))
        if store.open_handles > allow_open:
            raise _Bad('handle-left-open', '%s %s: %d handles open after a '
                       'complete pass' % (what, label, store.open_handles))

    def partial(how, k):
        it = iter(view)
        got = []
        for _ in range(k):
            try:
                got.append(canon_row(next(it)))
            except StopIteration:
                break
            except Exception as ex:
                raise _Bad('tee-raised', '%s partial pass raised %s: %s; '
                           'to%s writes the table without an error'
                           % (what, type(ex).__name__, ex, fmt))
        if got != want_rows[:len(got)]:
            raise _Bad('rows-differ', '%s partial pass: yielded %r, the '
                       'wrapped table starts %r' % (what, got,
                                                    want_rows[:len(got)]))
        if how == 'close':
            it.close()
        del it
        gc.collect()
        if store.open_handles != 0:
            raise _Bad('handle-left-open', '%s: %d handles open after an '
                       'abandoned pass (%s)' % (what, store.open_handles,
                                                how))
    def sinkfail(budget):
        # the sink runs out of space part-way: the pass may fail with that
        # very error (nothing else), must not leave the handle open, and the
        # view must be as good as new afterwards
        store.write_budget = budget
        it = iter(view)
        got = []
        try:
            try:
                for r in it:
                    got.append(canon_row(r))
            except SimDiskFull:
                pass
            except Exception as ex:
                raise _Bad('tee-raised', '%s raised %s: %s when its sink '
                           'failed with ENOSPC' % (what, type(ex).__name__,
                                                   ex))
        finally:
            store.write_budget = None
        if got != want_rows[:len(got)]:
            raise _Bad('rows-differ', '%s pass with a failing sink: yielded '
                       '%r, the wrapped table starts %r'
                       % (what, got, want_rows[:len(got)]))
        del it
        gc.collect()
        if store.open_handles != 0:
            raise _Bad('handle-left-open', '%s: %d handles open after a '
                       'pass whose sink failed' % (what, store.open_handles))
    def shrink(how='shrink'):
        # the wrapped table changes between two passes (it loses its last
        # rows, or its fields change places): the target must then hold
        # exactly what to* writes for the table as it is now
        if how == 'permute':
            n = len(src.rows[0]) if src.rows else 0
            if n > 1:
                k = 1 + case.get('drop', 1) % (n - 1)
                for i, r in enumerate(src.rows):
                    full = list(r) + [None] * (n - len(r))
                    src.rows[i] = full[k:n] + full[:k] + list(r)[n:]
        else:
            keep = max(1, len(src.rows) - case.get('drop', 1))
            del src.rows[keep:]
        ref = SimStore()
        _to(e, fmt, SimTable([list(r) for r in src.rows],
                             mode=case.get('rowtype', 'copy')),
            ref.source('ref'), args)
        state['bytes'] = ref.files['ref']
        state['rows'] = canon_rows(src.rows)
    def straddle(how, k):
        # an iterator is advanced a few rows and kept; a complete pass is
        # made; only then is the first one closed or dropped.  What its
        # abandoned writer still flushes must not damage the finished target
        it = iter(view)
        got = []
        for _ in range(k):
            try:
                got.append(canon_row(next(it)))
            except StopIteration:
                break
            except Exception as ex:
                raise _Bad('tee-raised', '%s partial pass raised %s: %s'
                           % (what, type(ex).__name__, ex))
        full('complete pass while an earlier iterator is still open',
             allow_open=1)
        if how == 'close':
            it.close()
        del it
        gc.collect()
        have = sink_bytes()
        if have != state['bytes']:
            raise _Bad('bytes-differ', '%s: after a complete pass the target '
                       'was right, but releasing (%s) an iterator abandoned '
                       'before that pass left %r in it; to%s writes %r'
                       % (what, how, have, fmt, state['bytes']))
        if store.open_handles != 0:
            raise _Bad('handle-left-open', '%s: %d handles open'
                       % (what, store.open_handles))
    def srcfail(idx, kind):
        # the wrapped table fails part-way: the tee lets that failure through
        # (it does not end as if the table were shorter), leaves no handle
        # open, and a later pass over the healthy table is complete
        from sim.devices import SOURCE_ERRORS
        cls = SOURCE_ERRORS[kind]
        src.arm(idx, passes=1, kind=kind)
        it = iter(view)
        got = []
        ended = None
        try:
            for r in it:
                got.append(canon_row(r))
            ended = 'ended normally after %d rows' % len(got)
        except cls:
            pass
        except BaseException as ex:
            ended = 'raised %s: %s' % (type(ex).__name__, ex)
        src.disarm()
        if idx <= len(src.rows) and ended is not None:
            raise _Bad('failure-not-passed-on', '%s: the wrapped table '
                       'raised %s instead of item %d, the tee %s'
                       % (what, cls.__name__, idx, ended))
        del it
        gc.collect()
        if store.open_handles != 0:
            raise _Bad('handle-left-open', '%s: %d handles open after a '
                       'pass whose source failed' % (what,
                                                     store.open_handles))
    h = case['history']
    if h == 'srcfail-full':
        srcfail(case['partial'], case.get('srckind', 'plain'))
        full('pass after one whose source failed')
    elif h in ('partial-full-close', 'partial-full-drop'):
        straddle(h.rsplit('-', 1)[1], case['partial'])
    elif h == 'full-shrink-full':
        full('pass 1')
        shrink()
        full('pass after the table got shorter')
    elif h == 'full-permute-full':
        full('pass 1')
        shrink('permute')
        full('pass after the fields changed places')
    elif h == 'sinkfail-full':
        sinkfail(case.get('budget', 0))
        full('pass after one whose sink failed')
    elif h == 'full':
        full('pass 1')
    elif h == 'full-full':
        full('pass 1')
        full('pass 2')
    elif h == 'partial-close-full':
        partial('close', case['partial'])
        full('pass after an abandoned one')
    elif h == 'partial-drop-full':
        partial('drop', case['partial'])
        full('pass after an abandoned one')
    else:
        partial('close', case['partial'])
        partial('drop', max(0, case['partial'] - 1))
        full('pass after two abandoned ones')
    return len(rows) - 1, None


class _ListHandler(logging.Handler):
    def __init__(self):
        logging.Handler.__init__(self)
        self.lines = []

    def emit(self, record):
        self.lines.append(record.getMessage())


def _run_timing(e, case, log):
    import petl.util.timing as timing
    rows = dec_table(case['table'])
    clock = SimClock(script=[tuple(s) for s in case['script']],
                     resolution=case['resolution'])
    src = SimTable([list(r) for r in rows], mode='copy')
    src.clock = clock
    src.latency = case['latency']
    saved = timing.time
    timing.time = clock
    sink = io.StringIO()
    handler = None
    try:
        if case['kind'] == 'progress':
            view = e.progress(src, case['batchsize'], prefix=case['prefix'],
                              out=sink)
        elif case['kind'] == 'log_progress':
            logger = logging.getLogger('petl-verif-c16')
            logger.propagate = False
            logger.setLevel(logging.INFO)
            handler = _ListHandler()
            logger.handlers = [handler]
            view = e.log_progress(src, case['batchsize'],
                                  prefix=case['prefix'], logger=logger,
                                  level=case.get('level', logging.INFO))
        else:
            view = e.clock(src)
        want = canon_rows(rows)
        what = '%s(batchsize=%r) under clock script %r resolution %r' % (
            case['kind'], case['batchsize'], case['script'],
            case['resolution'])
        if case.get('arm'):
            # the wrapped table fails part-way: the wrapper must let exactly
            # that failure through (not end as if the table were shorter)
            idx, kind = case['arm']
            from sim.devices import SOURCE_ERRORS
            cls = SOURCE_ERRORS[kind]
            src.arm(idx, passes=1, kind=kind)
            it = iter(view)
            g = []
            try:
                for r in it:
                    g.append(canon_row(r))
                ended = 'ended normally after %d rows' % len(g)
            except cls as ex:
                ended = None
            except BaseException as ex:
                ended = 'raised %s: %s' % (type(ex).__name__, ex)
            src.disarm()
            if idx <= len(rows) and ended is not None:
                raise _Bad('failure-not-passed-on', '%s: the wrapped table '
                           'raised %s instead of item %d, the wrapper %s'
                           % (what, cls.__name__, idx, ended))
            if g != want[:len(g)]:
                raise _Bad('rows-differ', '%s: before the failure the '
                           'wrapper yielded %r' % (what, g))
            del it
        its = [iter(view) for _ in range(case['consumers'])]
        got = [[] for _ in its]
        live = list(range(len(its)))
        while live:
            for c in list(live):
                try:
                    got[c].append(canon_row(next(its[c])))
                except StopIteration:
                    live.remove(c)
                except Exception as ex:
                    raise _Bad('raised', '%s: consumer %d raised %s: %s '
                               'after %d rows' % (what, c,
                                                  type(ex).__name__, ex,
                                                  len(got[c])))
        for c, g in enumerate(got):
            log.add('rows', c, g)
            if g != want:
                raise _Bad('rows-differ', '%s: consumer %d got %r, the '
                           'wrapped table has %r' % (what, c, g, want))
        # second pass
        g2 = []
        try:
            for r in iter(view):
                g2.append(canon_row(r))
        except Exception as ex:
            raise _Bad('raised', '%s: second pass raised %s: %s'
                       % (what, type(ex).__name__, ex))
        if g2 != want:
            raise _Bad('rows-differ', '%s: second pass got %r' % (what, g2))
        nmsg = len(sink.getvalue().splitlines()) if handler is None \
            else len(handler.lines)
        log.add('messages', nmsg, clock.readings)
        return (clock.simulated_seconds, clock.went_back, clock.stalled,
                nmsg, len(rows) - 1)
    finally:
        timing.time = saved


def _run_cache(e, case, log):
    from petl.util.materialise import cache as pcache
    rows = dec_table(case['table'])
    tbl = [list(r) for r in rows]
    src = SimTable(tbl, mode='alias')
    inner = None
    if case['view'] == 'cache':
        view = pcache(e.wrap(src), n=case['n'])
    elif case['view'] == 'wrap-of-cache':
        # the table that wrap() wraps is a cache view
        inner = pcache(e.wrap(src), n=case['n'])
        view = e.wrap(inner)
    else:
        view = e.wrap(src)
    want = canon_rows(rows)
    sch = Sched([view], [want], log=log)
    try:
        sch.run(case['steps'])
        sch.fresh(0)
        sch.fresh(0, label='fresh-again')
        if inner is not None:
            # the source goes on changing; what the cache view yields now
            # (remembered rows, or fresh ones) is what the wrapper yields
            # (the cache view is read on its own first: it may remember
            # what it saw)
            for _ in iter(inner):
                pass
            tbl.append(['appended'] * max(len(tbl[0]) if tbl else 1, 1))
            a = [canon_row(r) for r in iter(inner)]
            b = [canon_row(r) for r in iter(view)]
            c = [canon_row(r) for r in iter(inner)]
            log.add('after-edit', a, b)
            if not (a == b == c):
                raise _Bad('rows-differ', 'wrap(cache(t, n=%r)) after the '
                           'source changed: the cache view yields %r, the '
                           'wrapper %r, the cache view again %r'
                           % (case['n'], a, b, c))
    finally:
        overlap = sch.overlap
        nsteps = sch.nsteps
        sch.tasks.clear()
        sch.views = []
    return overlap, nsteps, len(rows) - 1


def run_case(case):
    e = load_petl()
    log = Log()
    m = case['machine']
    probes = {'machine:' + m: 1}
    sim_seconds = 0.0
    steps = 0
    try:
        if m == 'tee':
            n, why = _run_tee(e, case, log)
            if why is not None:
                return outcome('trivial', digest=log.hexdigest(),
                               nontrivial=False,
                               extra={'group': 'tee:' + case['fmt'],
                                      'why': why})
            probes['tee:' + case['fmt']] = 1
            probes['history:' + case['history']] = 1
            nontrivial = n >= 1
            group = 'tee:' + case['fmt']
        elif m == 'timing':
            sim_seconds, back, stalled, nmsg, n = _run_timing(e, case, log)
            probes['timing:' + case['kind']] = 1
            if back:
                probes['clock-went-backwards'] = 1
            if stalled:
                probes['clock-stalled'] = 1
            if nmsg > 1:
                probes['progress-batch-messages'] = 1
            nontrivial = n >= 1
            group = 'timing:' + case['kind']
        else:
            overlap, steps, n = _run_cache(e, case, log)
            probes['cache-n:%r' % (case['n'],)] = 1
            nontrivial = overlap and n >= 1
            group = 'cache'
    except _Bad as b:
        sig = {'machine': m, 'vclass': b.vclass}
        if m == 'tee':
            sig['fmt'] = case['fmt']
        elif m == 'timing':
            sig['kind'] = case['kind']
        return outcome('violation', vclass=b.vclass, msg=b.msg, sig=sig,
                       digest=log.hexdigest())
    except Violation as v:
        return outcome('violation', vclass=v.vclass,
                       msg='%s(n=%r): %s' % (case['view'], case['n'], v.msg),
                       sig={'machine': m, 'view': case['view'],
                            'vclass': v.vclass.replace('fresh-pass-', '')},
                       digest=log.hexdigest())
    if m == 'tee':
        st = 'tee:%s:%s:%s' % (case['fmt'], case['history'],
                               case['args'].get('encoding'))
    elif m == 'timing':
        st = 'timing:%s:%s:%s' % (case['kind'], case['batchsize'], ''.join(
            sorted(set(k[0][0] for k in case['script']))))
    else:
        st = 'cache:%s:%r:%s' % (case['view'], case['n'], case['shape'])
    return outcome('ok', digest=log.hexdigest(), probes=probes, steps=steps,
                   nontrivial=nontrivial, sim_seconds=sim_seconds,
                   states=[st], extra={'group': group})


def warmup():
    load_petl()


def shrink_candidates(case):
    import copy
    t = case['table']
    for d in ddmin_lists(t[1:]):
        c = copy.deepcopy(case)
        c['table'] = [t[0]] + d
        yield c
    if case['machine'] == 'tee':
        for k in list(case['args']):
            if k == 'template':
                continue
            c = copy.deepcopy(case)
            del c['args'][k]
            yield c
        if case['history'] != 'full':
            c = copy.deepcopy(case)
            c['history'] = 'full'
            yield c
        # simplify cells
        for i in range(1, len(t)):
            for j in range(len(t[i])):
                if t[i][j] != 'x':
                    c = copy.deepcopy(case)
                    c['table'][i][j] = 'x'
                    yield c
        if case.get('config'):
            c = copy.deepcopy(case)
            c['config'] = None
            yield c
    elif case['machine'] == 'timing':
        for s in ddmin_lists(case['script']):
            if s:
                c = copy.deepcopy(case)
                c['script'] = s
                yield c
        if case['consumers'] > 1:
            c = copy.deepcopy(case)
            c['consumers'] = 1
            yield c
        if case['resolution'] is not None:
            c = copy.deepcopy(case)
            c['resolution'] = None
            yield c
    else:
        for s in ddmin_lists(case['steps']):
            c = copy.deepcopy(case)
            c['steps'] = s
            yield c


def selfcheck(agg):
    if agg['truncated'] or agg['evaluations'] < 4000:
        return []
    errs = []
    for p in ('tee:csv', 'tee:tsv', 'tee:pickle', 'tee:text', 'tee:html',
              'timing:progress', 'timing:log_progress', 'timing:clock',
              'clock-went-backwards', 'clock-stalled',
              'progress-batch-messages', 'machine:cache'):
        if not agg['probes'].get(p):
            errs.append('probe never hit: ' + p)
    return errs
