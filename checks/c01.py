"""C01 - table views are re-iterable and their iterators are mutually
independent.  Iterator scheduler over the whole view catalogue; oracle = solo
pass of a freshly built identical view."""
import gc

from sim import devices
from sim.canon import Log
from sim.catalogue import RECIPES, NAMES, public_view_constructors, \
    cut_after_conflicts
from sim.core import outcome, quarantined, draw_config, not_a_harness_bug
from sim.canon import enc_table
from sim.gen import gen_table, gen_sorted_table
from sim.loader import load_petl
from sim.sched import Sched, Violation, gen_schedule, norm_schedule
from sim.viewcase import build, solo_reference, is_items, shrink_common

PROP = 'C01'
LEVEL = 'exploration'
RULE = ('case = (recipe stack of 1..3 views from the catalogue, argument '
        'variant, 0..2 small source tables, global sort_buffersize knob, '
        'schedule of ITER/NEXT/BURST/DRAIN/DROP/CLOSE/GC steps over 2..3 '
        'iterator tasks drawn from 6 schedule shapes, in 15% of the cases '
        'with ARM steps (a transient source failure: one pass over a source '
        'raises instead of row i, 8 exception classes incl. a '
        'BaseException; the iterator that meets it is written off, all '
        'others and all later passes are held to the reference), then a '
        'fresh pass with faults stopped); '
        'generated from sha256(seed/prop/g). Non-trivial: the solo reference '
        'did not raise, it has at least one data row, and at least two '
        'iterators existed unfinished at the same time after some row had '
        'been delivered. Distinct: '
        'by digest of the whole case (recipe, variant, tables, knobs, '
        'schedule).')
STATES = ('recipe stack x multiset over live iterators of position bucket '
          '(not started / at header / mid-way / at end) x finished flag, '
          'sampled after every step')
COMPONENTS = {
    'real': ['petl (all view classes in the catalogue)', 'CPython generators',
             'pickle + OS temp files for chunked sorts / fromdicts spill '
             'file (private sandbox directory)', 'sqlite3 (fromdb)',
             'csv/json/xml.etree parsers'],
    'stub': ['SimTable row sources', 'SimStore byte store behind '
             'fromcsv/fromtsv/frompickle/fromtext/fromjson/fromxml'],
}
ASSUMPTIONS = [
    'a step is one next() call: petl has no threads, so interleavings of '
    'next() calls are all the interleavings there are',
    'the solo pass of a freshly built identical view is the reference; a '
    'recipe whose solo pass raises is inapplicable (counted trivial)',
    'tee* views are excluded (the property excludes them); fromdb on a bare '
    'cursor is excluded (documented as not independently iterable)',
]

C01_NAMES = [n for n in NAMES if RECIPES[n].c01]
STACKABLE = [n for n in C01_NAMES if RECIPES[n].stackable]
# recipes with shared per-view state get extra weight
HOT = ['frompickle-mem', 'fromcsv-mem', 'fromcsv-path',
       'sort', 'sort', 'sort', 'cache', 'cache', 'cache-of-sort',
       'sort-of-sort', 'fromdicts-gen', 'fromdicts-gen', 'randomtable',
       'dummytable', 'hashjoin', 'hashleftjoin', 'hashrightjoin',
       'hashlookupjoin', 'hashantijoin', 'join', 'unjoin', 'diff',
       'recorddiff', 'mergesort', 'distinct', 'recast', 'pivot',
       'fromdb-conn', 'fromdb-factory', 'biselect', 'aggregate']


FAULT_KINDS = devices.SOURCE_ERROR_KINDS + ['plain', 'plain']


def _is_injected(t, ex):
    return isinstance(ex, (devices.SimSourceError, devices.SimSourceAbort))


def budget(tier):
    if tier == 'quick':
        return {'cases': 40000, 'wall_cap_s': 240}
    return {'cases': 800000, 'wall_cap_s': 1500}


C01_PAIRS = [(n, i) for n in C01_NAMES
             for i in range(len(RECIPES[n].variants))]


def gen_case(rng, tier, g):
    vi0 = None
    maxrows = 8 if tier == 'quick' else 12
    quar = quarantined(PROP)
    if rng.random() < 0.45:
        name = rng.choice(HOT)
    else:
        name = rng.choice(C01_NAMES)
        if rng.random() < 0.5:
            # round robin over every (recipe, argument variant) pair: each
            # one gets its share of the run, however many variants a recipe
            # has
            name, vi0 = C01_PAIRS[g % len(C01_PAIRS)]
    rec = RECIPES[name]
    stack = [[name, rng.randrange(len(rec.variants))]]
    if vi0 is not None:
        stack[0][1] = vi0
    if not rec.items and not rec.multi and name not in quar \
            and rng.random() < 0.3:
        for _ in range(rng.choice([1, 1, 2])):
            n2 = rng.choice(STACKABLE)
            if n2 in quar:
                continue
            stack.append([n2, rng.randrange(len(RECIPES[n2].variants))])
    # (Conflict sets: their text form and their order among themselves
    # depend on the interpreter's hash seed; nothing is built on them)
    conflicts = cut_after_conflicts(stack)
    profile = rec.profile
    tables = []
    nf = rng.randint(3, 5) if (rec.rect or rng.random() < 0.6) else None
    for _ in range(max(rec.nsrc, 1)):
        if profile == 'sorted':
            t = enc_table(gen_sorted_table(rng.randint(1, maxrows), 5,
                                           stride=len(tables) + 1))
        elif profile == 'csvsafe':
            t = gen_table(rng, maxrows, profile='text', ragged=False)
        elif profile == 'containers':
            t = gen_table(rng, maxrows, profile='containers', ragged=False,
                          nfields=rng.randint(4, 5))
        elif profile == 'textish':
            t = gen_table(rng, maxrows, profile='default', ragged=False,
                          nfields=5)
        else:
            t = gen_table(rng, maxrows, nfields=nf,
                          ragged=False if rec.rect else None)
        tables.append(t)
    if name == 'fromdicts-gen' and rng.random() < 0.35:
        # objects without keys at the start: the header sample is empty
        for i in range(1, min(len(tables[0]), rng.randint(2, 4))):
            tables[0][i] = []
    nrows = len(tables[0]) - 1
    nviews = 2 if rec.multi else 1
    if name in ('sort-of-sort',):
        nviews = 2
    fork = None
    if len(stack) == 1 and not conflicts and not rec.items \
            and not rec.multi and name not in quar and name not in ('sort-of-sort',) \
            and rng.random() < 0.15:
        # sibling views over one (possibly stateful) base view: iterators
        # over the base and over both derived views are interleaved
        fork = []
        for _ in range(2):
            n2 = rng.choice(STACKABLE)
            fork.append([n2, rng.randrange(len(RECIPES[n2].variants))])
        nviews = 3
    shape = None
    if name in HOT and rng.random() < 0.35:
        shape = 'stagger'
    steps, shape = gen_schedule(rng, nviews=nviews, shape=shape,
                                ntasks=3 if shape == 'stagger' else None,
                                maxsteps=40 if tier == 'quick' else 60,
                                nrows_hint=max(nrows, 2))
    if rng.random() < 0.1:
        # the view is dropped while iterators are alive
        steps.insert(rng.randint(0, len(steps)),
                     ['DROPVIEW', rng.randrange(nviews)])
    if any(n.startswith(('sort', 'cache')) or n.endswith('sort')
           for n, _ in stack) and rng.random() < 0.2:
        # the caching views can be told to forget their cache at any moment
        for _ in range(rng.choice([1, 1, 2])):
            steps.insert(rng.randint(0, len(steps)),
                         ['CLEARCACHE', rng.randrange(nviews),
                          rng.choice([0, 0, 1])])
    if name != 'fromdicts-gen' and rng.random() < 0.08 and rec.nsrc > 0:
        # re-entrancy: while some iterator is in the middle of a step (its
        # source is producing row i), a complete pass over the view is made
        # from inside that step
        si = rng.randrange(rec.nsrc)
        n = len(tables[si]) - 1
        steps.insert(rng.randint(0, max(0, len(steps) // 2)),
                     ['HOOK', si, rng.randint(0, n + 1),
                      rng.randrange(nviews)])
    elif name != 'fromdicts-gen' and rng.random() < 0.15:
        # transient source failure: one pass over a source raises instead of
        # row i; the iterator that meets it fails, every other iterator and
        # every later pass must be unaffected (fault-injecting configuration,
        # kept apart from the fault-free one)
        for _ in range(rng.choice([1, 1, 2])):
            si = rng.randrange(max(rec.nsrc, 1))
            n = len(tables[si]) - 1
            steps.insert(rng.randint(0, max(0, len(steps) - 1)),
                         ['ARM', si, rng.choice([0, 1, 2, max(1, n // 2),
                                                 max(1, n), n + 1]), 1,
                          rng.choice(FAULT_KINDS)])
    case = {'prop': PROP, 'stack': stack, 'tables': tables, 'steps': steps,
            'shape': shape,
            'rows': rng.choice(['alias', 'alias', 'copy', 'plain']),
            'wrap': rng.random() < 0.15,
            # the pipeline under test is built in method-call style, the
            # reference in function style
            'fluent': rng.random() < 0.15,
            'config': draw_config(rng, 0.12, exclude=('sort_buffersize',)),
            'knobs': {'sort_buffersize': rng.choice([None, None, 2, 3])}}
    if fork:
        case['fork'] = fork
    return case


def _sig(case, v):
    stack = case['stack']
    sig = {'vclass': v.vclass.replace('fresh-pass-', '')}
    if len(stack) == 1:
        sig['recipe'] = stack[0][0]
    else:
        sig['recipe'] = '+'.join(s[0] for s in stack)
    if 'exc' in v.sig:
        sig['exc'] = v.sig['exc']
    return sig


def run_case(case):
    e = load_petl()
    import petl.config as config
    log = Log()
    stack = case['stack']
    rec = RECIPES[stack[0][0]]
    group = rec.group
    label = '+'.join(s[0] for s in stack)
    saved = config.sort_buffersize
    kb = case.get('knobs', {}).get('sort_buffersize')
    if kb is not None:
        config.sort_buffersize = kb
    states = set()
    probes = {}
    try:
        with devices.TempSandbox() as sb:
            why = None
            try:
                expected = solo_reference(e, stack, case['tables'],
                                          mode=case.get('rows', 'alias'),
                                          tempdir=sb.path,
                                          wrap_sources=case.get('wrap',
                                                                False))
                if case.get('fork'):
                    expected = expected[:1] + _fork_reference(
                        e, stack, case, sb.path)
            except Exception as ex:
                why = type(not_a_harness_bug(ex)).__name__
            if why is not None:
                # (outside the handler: the traceback must be gone before
                # the sandbox is removed)
                gc.collect()
                return outcome('trivial', digest=log.hexdigest(),
                               nontrivial=False,
                               extra={'group': group, 'why': why})
            log.add('expected', expected)
            w, views = build(e, stack, case['tables'], tempdir=sb.path,
                             fluent=bool(case.get('fluent')),
                             mode=case.get('rows', 'alias'),
                             wrap_sources=case.get('wrap', False))
            if case.get('fork'):
                views = views[:1] + _forks(e, w, views[0], case['fork'])
            faulty = any(op[0] in ('ARM', 'HOOK') for op in case['steps'])
            nested = []
            sch = Sched(views, expected, log=log, items=is_items(stack),
                        expect_fault=_is_injected if faulty else None)

            def after(s, op):
                states.add(label + ':' + s.position_state())
            sch.after_step = after
            result = None
            try:
                try:
                    if faulty:
                        for op in case['steps']:
                            if op[0] == 'ARM':
                                if op[1] < len(w.s) and \
                                        hasattr(w.s[op[1]], 'arm'):
                                    w.s[op[1]].arm(op[2], passes=op[3],
                                                   kind=op[4])
                                    log.add('step', op)
                            elif op[0] == 'HOOK':
                                if op[1] < len(w.s) and \
                                        hasattr(w.s[op[1]], 'hook'):
                                    w.s[op[1]].hook = (
                                        op[2], _nested_pass(sch, op[3],
                                                            nested))
                                    log.add('step', op)
                            else:
                                sch.step(op)
                                if nested:
                                    # a violation seen by the nested pass
                                    # (kept out of petl's own handlers)
                                    raise nested[0]
                        # faults stop before the fresh passes
                        for s in w.s:
                            if hasattr(s, 'disarm'):
                                s.disarm()
                        if any(t.failed for t in sch.tasks.values()):
                            probes['iterator-failed-by-injection'] = 1
                    else:
                        sch.run(case['steps'])
                    for vi in range(len(sch.views)):
                        if sch.views[vi] is not None:
                            sch.fresh(vi)
                except Violation as v:
                    result = outcome(
                        'violation', vclass=v.vclass, msg=label + ': ' + v.msg,
                        sig=_sig(case, v), digest=log.hexdigest(),
                        steps=sch.nsteps, states=sorted(states),
                        extra={'group': group})
                concurrent = sch.overlap
                if sch.concurrent:
                    probes['two-midway-at-once'] = 1
                nsteps = sch.nsteps
                for k in ('nested-pass-inside-a-step', 'clearcache-called'):
                    if sch.probes.get(k):
                        probes[k] = 1
                if sch.max_live >= 3:
                    probes['three-live-iterators'] = 1
                if concurrent:
                    probes['two-live-after-progress'] = 1
            finally:
                sch.tasks.clear()
                sch.views = []
                w.close()
                del views, sch
                gc.collect()
            if result is not None:
                return result
    finally:
        config.sort_buffersize = saved
    nontrivial = concurrent and len(expected[0]) >= 2
    probes['recipe:' + stack[0][0]] = 1
    if len(stack) > 1:
        probes['stacked'] = 1
    if case.get('fork'):
        probes['forked-sibling-views'] = 1
    if any(op[0] == 'DROPVIEW' for op in case['steps']):
        probes['view-dropped-mid-schedule'] = 1
    return outcome('ok', digest=log.hexdigest(), steps=nsteps,
                   states=sorted(states), nontrivial=nontrivial,
                   probes=probes, extra={'group': group})


def _nested_pass(sch, vi, found):
    def run():
        if vi < len(sch.views) and sch.views[vi] is not None:
            try:
                sch.fresh(vi, label='nested%d' % len(found))
                sch.probe('nested-pass-inside-a-step')
            except Violation as v:
                v.msg = 'pass made from inside a step of another ' \
                    'iterator: ' + v.msg
                found.append(v)
    return run


def _forks(e, w, base, fork):
    from sim.viewcase import StageWorld
    out = ()
    for n2, v2 in fork:
        r2 = RECIPES[n2]
        out += (r2.variants[v2 % len(r2.variants)](e, StageWorld(w, base)),)
    return out


def _fork_reference(e, stack, case, tempdir):
    """Solo pass over each derived view, each on a freshly built base."""
    from sim.canon import canon_row
    out = []
    for i in range(len(case['fork'])):
        w, views = build(e, stack, case['tables'], tempdir=tempdir,
                         mode=case.get('rows', 'alias'),
                         wrap_sources=case.get('wrap', False))
        try:
            fv = _forks(e, w, views[0], case['fork'])[i]
            rows = []
            for r in iter(fv):
                rows.append(canon_row(r))
                if len(rows) > 5000:
                    raise OverflowError('reference too long')
            out.append(rows)
        finally:
            w.close()
            del views
    return out


def warmup():
    load_petl()


def shrink_candidates(case):
    import copy
    if case.get('fork'):
        c = copy.deepcopy(case)
        del c['fork']
        c['steps'] = [op for op in c['steps']
                      if not (op[0] in ('ITER', 'DROPVIEW')
                              and op[-1] > 0)]
        yield c
    for c in shrink_common(case):
        yield c


def selfcheck(agg):
    errs = []
    if agg['truncated']:
        return errs
    missing = [n for n in C01_NAMES if 'recipe:' + n not in agg['probes']]
    if missing and agg['evaluations'] >= 5000:
        errs.append('recipes never ran non-trivially: %s' % missing)
    return errs


def evidence_extra(tier):
    e = load_petl()
    covered, missing = public_view_constructors(e)
    return {'recipes_in_catalogue': len(C01_NAMES),
            'public_view_constructors_covered': len(covered),
            'public_view_constructors_not_covered': missing,
            'schedule_shapes': ['uniform', 'bursty', 'late', 'after-exhaust',
                                'roundrobin', 'stagger']}
