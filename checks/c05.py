"""C05 - sort / mergesort: stable ordered permutation, the same under every
buffering strategy, with cache on or off, on every pass.

The external sort writes pickled runs to temp files, merges them and keeps
memory or file caches across passes: disk I/O + configuration + pass
history.  Oracle: an independently written stable reference sort."""
import gc
import os

from sim import devices
from sim.canon import Log, dec_table, canon_rows
from sim.core import outcome, ddmin_lists, draw_config
from sim.devices import (SimTable, SimSourceError, SOURCE_ERROR_KINDS,
                         INJECTED_SOURCE_FAILURES)
from sim.gen import gen_sort_table, FIELDS
from sim.loader import load_petl
from sim.models import ref_sort, ref_cat, resolve_key, row_key, ref_cmp
from sim.sched import Sched, Violation, gen_schedule

PROP = 'C05'
LEVEL = 'exploration'
RULE = ('case = (sort or mergesort; 1..3 source tables over the conservative '
        'value domain (None, bool, int, float, Decimal, str, bytes, date, '
        'flat tuples) with duplicate / None / missing key cells and ragged '
        'rows; key None / single / compound / by index; reverse; buffersize '
        'from {1,2,3,n-1,n,n+1,n+2,None}; cache on/off; tempdir set/unset; '
        'petl.config.sort_buffersize; for mergesort presorted/header/'
        'missing; a history of 1..3 iterators stepped under a schedule, '
        'optional source failure for one pass, then a fresh pass). Every '
        'delivered row is compared with the reference sort after every '
        'step. Non-trivial: at least 2 data rows. Distinct: by digest of the '
        'whole case.')
STATES = 'operation x number of chunk files seen (capped at 5) x cache flag'
COMPONENTS = {
    'real': ['petl sort/mergesort/SortView/_mergesorted/_Keyed', 'pickle',
             'real chunk files in a private directory'],
    'stub': ['SimTable sources'],
    'model': ['sim/models.py: ref_cmp / ref_sort / ref_cat (independent '
              'stable reference sort for the ordering stated in C04)'],
}
ASSUMPTIONS = [
    'value domain restricted to where the C04 ordering is unambiguous (no '
    'NaN, no list-vs-tuple mixes, no nested containers deeper than one '
    'level)',
    'the reference comparator was cross-checked against petl.Comparable on '
    'all pairs of the value pool (selftest in this module: '
    'comparator_agrees())',
]


def budget(tier):
    if tier == 'quick':
        return {'cases': 16000, 'wall_cap_s': 240}
    return {'cases': 800000, 'wall_cap_s': 1500}


def _pick_key(rng, nf):
    r = rng.random()
    if r < 0.2:
        return None
    if r < 0.6:
        return FIELDS[rng.randrange(nf)]
    if r < 0.7:
        return rng.randrange(nf)
    k = rng.sample(FIELDS[:nf], min(nf, rng.choice([1, 2, 2, 3])))
    return k


def _bufsizes(rng, n):
    c = rng.choice([1, 2, 3, n - 1, n, n, n + 1, n + 2, None, None])
    if c is not None and c < 1:
        c = 1
    return c


def gen_case(rng, tier, g):
    case = _gen_case(rng, tier, g)
    case['fluent'] = rng.random() < 0.15
    case['decoy'] = rng.random() < 0.1
    # the host application's petl.config / logging set-up must not matter
    cfg = draw_config(rng, 0.12, exclude=('sort_buffersize', 'failonerror'))
    if cfg:
        case['config'] = cfg
    return case


def _gen_case(rng, tier, g):
    case = _gen_case_(rng, tier, g, None)
    if rng.random() < 0.012:
        # a table of several hundred rows with buffer sizes in the hundreds
        # (a comparison that only holds for small numbers - an identity test
        # on ints, a one-byte counter - shows beyond 256)
        case = _gen_case_(rng, tier, g, rng.choice([300, 520, 700]))
    return case


def _gen_case_(rng, tier, g, big):
    maxrows = 8 if tier == 'quick' else 12
    op = 'sort' if rng.random() < 0.6 else 'mergesort'
    nf = rng.randint(1, 4)
    # values that are equal to values of another rank (1 and 1+0j)
    eqnum = rng.random() < 0.04 and not big
    if op == 'sort':
        tables = [gen_sort_table(rng, big or maxrows, nfields=nf,
                                 minrows=big - 40 if big else 0,
                                 eqnum=eqnum)]
        hdr_arg, missing, presorted = None, None, False
        perms = None
    else:
        nt = rng.choice([1, 2, 2, 3])
        ragged = rng.random() < 0.2
        tables = []
        for _ in range(nt):
            t = gen_sort_table(rng, maxrows, nfields=nf, ragged=ragged,
                               eqnum=eqnum)
            tables.append(t)
        # shuffled / extended headers on some inputs
        perms = None
        if rng.random() < 0.35 and nf > 1:
            perms = []
            for t in tables:
                p = list(range(nf))
                rng.shuffle(p)
                perms.append(p)
        missing = rng.choice([None, None, None, 'M', 0])
        hdr_arg = None
        if rng.random() < 0.25 and not ragged:
            # the documented header= argument: fields reordered, possibly
            # one dropped, possibly an unknown one added
            hdr_arg = list(FIELDS[:nf])
            rng.shuffle(hdr_arg)
            if len(hdr_arg) > 1 and rng.random() < 0.3:
                hdr_arg = hdr_arg[:-1]
            if rng.random() < 0.3:
                hdr_arg.append('zz')
        presorted = rng.random() < 0.2
    key = _pick_key(rng, nf)
    if hdr_arg is not None:
        # the key must be among the output fields, by name
        names = [f for f in hdr_arg if f != 'zz']
        key = rng.choice([names[0], names[-1], names[:2]]) \
            if rng.random() < 0.8 else None
    if perms is not None and (isinstance(key, int) or (
            isinstance(key, list) and any(isinstance(k, int) for k in key))):
        # a positional key names different fields in differently ordered
        # inputs: "the same key" is not defined for the concatenation
        perms = None
    if presorted and ((missing is not None and op == 'mergesort'
                       and any(len(r) < nf for t in tables for r in t[1:]))
                      or (key is None and (perms is not None
                                           or hdr_arg is not None))):
        # "already sorted by the key" is ambiguous for these inputs
        presorted = False
    n = sum(len(t) - 1 for t in tables)
    n0 = len(tables[0]) - 1
    steps, shape = gen_schedule(rng, nviews=1, ntasks=rng.choice([1, 2, 3]),
                                maxsteps=30, nrows_hint=max(n, 2))
    if rng.random() < 0.2:
        si = rng.randrange(len(tables))
        ni = len(tables[si]) - 1
        steps.insert(rng.randint(0, len(steps)),
                     ['ARM', si, rng.choice([1, 2, max(1, ni // 2), ni,
                                             ni + 1]), 1,
                      rng.choice(SOURCE_ERROR_KINDS)])
    sweep = rng.random() < 0.2 and not big
    if sweep:
        # configuration enumeration: the same input under EVERY buffersize
        # 1..n+2 and None x cache on/off, two passes each
        steps = [['ITER', 't0', 0], ['DRAIN', 't0']]
    inner = None
    if op == 'sort' and rng.random() < 0.15:
        inner = [_pick_key(rng, nf), rng.random() < 0.3, rng.random() < 0.5]
    if op == 'mergesort' and len(tables) > 1 and hdr_arg is None \
            and (key is None or presorted) and rng.random() < 0.1:
        # an input that yields nothing at all, not even a header
        tables[rng.randrange(len(tables) - 1)] = []
        if perms is not None:
            perms = None
    inner_ms = None
    if op == 'mergesort' and not presorted and perms is None and \
            hdr_arg is None and missing is None and not ragged and \
            all(tables) and rng.random() < 0.15:
        inner_ms = [rng.choice([None, True, False]) for _ in tables]
    return {'prop': PROP, 'op': op, 'tables': tables, 'perms': perms,
            'eqnum': eqnum, 'inner_ms': inner_ms,
            'perm_short': perms is not None and rng.random() < 0.5,
            'dupname': rng.randrange(2) if op == 'mergesort' and
            perms is None and hdr_arg is None and key is not None and
            rng.random() < 0.1 else None,
            'sweep': sweep, 'inner': inner,
            'key': key, 'reverse': rng.random() < 0.35,
            'buffersize': rng.choice([255, 256, 257, 258, 300, n0 - 1, n0])
            if big and op == 'sort'
            else _bufsizes(rng, n0 if op == 'sort' else max(n0, 1)),
            'cache': rng.random() < 0.7, 'tempdir': rng.random() < 0.4,
            'cfg': rng.choice([None, None, None, 1, 2, 3]),
            'missing': missing, 'header': hdr_arg, 'presorted': presorted,
            'steps': steps, 'shape': shape}


def _apply_perm(t, p):
    return [[r[i] for i in p if i < len(r)] if len(r) >= len(p)
            else [r[i] for i in p if i < len(r)] for r in t]


def _tables(case):
    tables = [dec_table(t) for t in case['tables']]
    if case.get('dupname') is not None and len(tables) > 1:
        # an input other than the first carries a field name twice (its last
        # field is called like its first): a name means the first column of
        # that name.  (Not the first input: cat() takes its header as it is,
        # repeated names included, which is another matter.)
        t = tables[1 + case['dupname'] % (len(tables) - 1)]
        k = case['key']
        knames = [] if k is None else (k if isinstance(k, list) else [k])
        if t and len(t[0]) >= 2 and t[0][-1] not in knames and \
                not any(isinstance(x, int) for x in knames):
            t[0] = list(t[0])
            t[0][-1] = t[0][0]
    if case.get('perms'):
        out = []
        for t, p in zip(tables, case['perms']):
            # permute the columns of rectangular part; ragged rows keep the
            # cells they have, in the permuted order
            nt = []
            for r in t:
                full = list(r) + [None] * (len(p) - len(r))
                row = [full[i] for i in p]
                if case.get('perm_short') and len(r) < len(p):
                    # a short row stays short: it has the first cells of
                    # its own table's (permuted) field order
                    row = row[:len(r)]
                nt.append(row)
            out.append(nt)
        tables = out
    return tables


def _expected(case, tables):
    key, rev = case['key'], case['reverse']
    if case['op'] == 'sort':
        t = tables[0]
        if case.get('inner') is not None:
            # the table given to sort() is itself a sort view (on another
            # key): ties of the outer key stay in *that* view's order
            t = ref_sort(t, case['inner'][0], case['inner'][1])
        return ref_sort(t, key, rev)
    cat = ref_cat(tables, header=case.get('header'),
                  missing=case.get('missing'))
    return ref_sort(cat, key, rev)


def _short_key_cell(case, tables):
    """Does some data row lack a cell the key refers to?"""
    for t in tables:
        try:
            idx, many = resolve_key(t[0], case['key'])
        except (ValueError, IndexError):
            return True
        for r in t[1:]:
            if any(i >= len(r) for i in idx):
                return True
    return False


def _is_injected(t, e):
    return isinstance(e, INJECTED_SOURCE_FAILURES)


def _history(e, case, tables, expected, td, sb, log, probes):
    import petl.transform.sorts as psorts
    result = None
    srcs = [SimTable(t, mode='alias', name='s%d' % i)
            for i, t in enumerate(tables)]
    kw = {}
    if case['buffersize'] is not None:
        kw['buffersize'] = case['buffersize']
    if not case['cache']:
        kw['cache'] = False
    if case['tempdir']:
        kw['tempdir'] = td
    if case.get('fluent'):
        from sim.loader import Fluent
        e = Fluent(e)
    if case['op'] == 'sort':
        src0 = srcs[0]
        if case.get('inner') is not None:
            src0 = e.sort(src0, case['inner'][0], reverse=case['inner'][1],
                          cache=case['inner'][2])
            probes['sort-of-a-sort-view'] = 1
        view = e.sort(src0, case['key'], reverse=case['reverse'], **kw)
    else:
        ins = srcs
        if case.get('inner_ms') and not case['presorted']:
            # some inputs are sort views on the same key themselves, in
            # either direction: mergesort sorts what it is given
            ins = [s_ if f_ is None else e.sort(s_, case['key'], reverse=f_)
                   for s_, f_ in zip(ins, case['inner_ms'])]
            probes['mergesort-of-sort-views'] = 1
        if case['presorted']:
            # inputs presorted by the reference sort (not by petl)
            ins = [ref_sort(t, case['key'], case['reverse']) for t in tables]
            ins = [SimTable([list(r) for r in t], mode='alias') for t in ins]
            srcs = ins
            kw['presorted'] = True
        if case.get('missing') is not None:
            kw['missing'] = case['missing']
        if case.get('header') is not None:
            kw['header'] = case['header']
        view = e.mergesort(*ins, key=case['key'], reverse=case['reverse'],
                           **kw)
    if case['op'] == 'mergesort':
        # the statement's own right-hand side, computed by petl: must agree
        # with the model (validates the model of cat as well)
        ckw = {}
        if case.get('missing') is not None:
            ckw['missing'] = case['missing']
        if case.get('header') is not None:
            ckw['header'] = case['header']
        rhs = []
        try:
            for r in e.sort(e.cat(*[dec for dec in tables], **ckw),
                            case['key'], reverse=case['reverse']):
                rhs.append(r)
        except Exception as ex:
            # (the reference model sorts these tables: so must petl)
            rhs = ['raised %s: %s' % (type(ex).__name__, ex)]
        if rhs[:1] != [r_ for r_ in rhs[:1] if not isinstance(r_, str)] \
                or canon_rows(rhs) != canon_rows(expected):
            return outcome(
                'violation', vclass='sort-cat-differs-from-model',
                msg='sort(cat(...), key=%r, reverse=%r) gives %r, the '
                    'reference model %r' % (case['key'], case['reverse'],
                                            rhs, expected),
                sig={'op': 'sort-cat', 'vclass':
                     'sort-cat-differs-from-model'},
                digest=log.hexdigest()), 0, 0
    sch = Sched([view], [canon_rows(expected)], log=log,
                expect_fault=_is_injected)
    maxfiles = 0
    try:
        try:
            for op in case['steps']:
                if op[0] == 'ARM':
                    if op[1] < len(srcs):
                        srcs[op[1]].arm(op[2], passes=op[3],
                                         kind=op[4] if len(op) > 4
                                         else 'plain')
                        log.add('step', op)
                    continue
                if op[0] == 'ITER' and isinstance(view, psorts.SortView):
                    if view.cache and view._memcache is not None:
                        probes['pass-from-memcache'] = 1
                    elif view.cache and view._filecache is not None:
                        probes['pass-from-filecache'] = 1
                sch.step(op)
                nfiles = len([f for r, d, fs in os.walk(sb.path)
                              for f in fs])
                maxfiles = max(maxfiles, nfiles)
            for s in srcs:
                s.disarm()
            sch.fresh(0)
            sch.fresh(0, label='fresh-again')
        except Violation as v:
            sig = {'op': case['op'],
                   'vclass': v.vclass.replace('fresh-pass-', '')}
            if 'exc' in v.sig:
                sig['exc'] = v.sig['exc']
            sig['key_none'] = case['key'] is None
            if case.get('eqnum'):
                sig['equal_values_of_different_rank'] = True
            if case['op'] == 'mergesort':
                sig['permuted_headers'] = bool(case.get('perms'))
                sig['missing_arg'] = case.get('missing') is not None
                sig['presorted'] = bool(case.get('presorted'))
                sig['short_key_cell'] = _short_key_cell(case, tables)
                sig['header_arg'] = case.get('header') is not None
            result = outcome('violation', vclass=v.vclass,
                             msg='%s(key=%r, reverse=%r, buffersize=%r, '
                                 'cache=%r): %s'
                                 % (case['op'], case['key'], case['reverse'],
                                    case['buffersize'], case['cache'], v.msg),
                             sig=sig, digest=log.hexdigest(),
                             steps=sch.nsteps)
        nsteps = sch.nsteps
        if any(t.failed for t in sch.tasks.values()):
            probes['iterator-failed-by-injection'] = 1
    finally:
        sch.tasks.clear()
        sch.views = []
        del view
    return result, nsteps, maxfiles


def run_case(case):
    e = load_petl()
    import petl.config as config
    log = Log()
    probes = {}
    tables = _tables(case)
    try:
        expected = _expected(case, tables)
    except (ValueError, IndexError):
        return outcome('trivial', digest=log.hexdigest(), nontrivial=False)
    log.add('expected', canon_rows(expected))
    saved = config.sort_buffersize
    if case['cfg'] is not None:
        config.sort_buffersize = case['cfg']
    try:
        if case.get('decoy'):
            # an unrelated table sorted earlier in the same process, holding
            # values of ONE type of which only some pairs can be ordered
            # (time-zone aware next to naive timestamps): what a comparison
            # learns there must not carry over
            probes['decoy-sort-first'] = 1
            import datetime as _dt
            aware = _dt.datetime(2021, 1, 1, tzinfo=_dt.timezone.utc)
            try:
                list(iter(e.sort([['k'], [aware], [_dt.datetime(2020, 1, 1)],
                                  [aware]], 'k')))
            except Exception:
                pass
        with devices.TempSandbox() as sb:
            td = os.path.join(sb.path, 'td')
            os.mkdir(td)
            if case.get('sweep'):
                n0 = max(len(t) - 1 for t in tables)
                nsteps = maxfiles = 0
                result = None
                for b in list(range(1, n0 + 3)) + [None]:
                    for cache in (True, False):
                        sub = dict(case, buffersize=b, cache=cache)
                        result, ns, mf = _history(e, sub, tables, expected,
                                                  td, sb, log, probes)
                        gc.collect()
                        nsteps += ns
                        maxfiles = max(maxfiles, mf)
                        if result is not None:
                            break
                    if result is not None:
                        break
                probes['buffersize-sweeps'] = 1
            else:
                result, nsteps, maxfiles = _history(e, case, tables, expected,
                                                    td, sb, log, probes)
                gc.collect()
    finally:
        config.sort_buffersize = saved
    if result is not None:
        return result
    n0 = len(tables[0]) - 1
    eff = case['buffersize'] if case['buffersize'] is not None \
        else case['cfg']
    if maxfiles:
        probes['chunked-path'] = 1
        # equal keys in different chunks of the first input?
        if eff and n0 > eff:
            idx, many = resolve_key(tables[0][0], case['key'])
            keys = [row_key(r, idx, many) for r in tables[0][1:]]
            for i in range(len(keys)):
                for j in range(i + 1, len(keys)):
                    if i // eff != j // eff and \
                            ref_cmp(keys[i], keys[j]) == 0:
                        probes['equal-keys-across-chunks'] = 1
                        if case['reverse']:
                            probes['reverse-chunk-merge-with-ties'] = 1
    if eff is not None and eff == n0:
        probes['buffersize==nrows'] = 1
    if eff is not None and eff == n0 + 1:
        probes['buffersize==nrows+1'] = 1
    probes['op:' + case['op']] = 1
    if case['key'] is None:
        probes['key-none'] = 1
    return outcome('ok', digest=log.hexdigest(), steps=nsteps, probes=probes,
                   nontrivial=len(expected) >= 3,
                   states=['%s:chunks=%d:cache=%s' % (
                       case['op'], min(maxfiles, 5), case['cache'])],
                   extra={'group': case['op']})


def comparator_agrees():
    """Cross-check of the reference comparator against petl.Comparable on
    all pairs of the value pool (run by selfcheck at worker start-up cost)."""
    from sim.gen import SAFE_SORT_VALUES
    e = load_petl()
    C = e.Comparable
    bad = []
    for a in SAFE_SORT_VALUES:
        for b in SAFE_SORT_VALUES:
            c = ref_cmp(a, b)
            lt = C(a) < C(b)
            eq = C(a) == C(b)
            if (c < 0) != bool(lt) or (c == 0) != bool(eq):
                bad.append((a, b, c, lt, eq))
    return bad


def warmup():
    load_petl()


def shrink_candidates(case):
    import copy
    if case['steps']:
        for s in ddmin_lists(case['steps']):
            c = copy.deepcopy(case)
            c['steps'] = s
            yield c
    for ti, t in enumerate(case['tables']):
        for d in ddmin_lists(t[1:]):
            c = copy.deepcopy(case)
            c['tables'][ti] = [t[0]] + d
            yield c
    if len(case['tables']) > 1:
        for ti in range(len(case['tables'])):
            c = copy.deepcopy(case)
            del c['tables'][ti]
            if c.get('perms'):
                del c['perms'][ti]
            c['steps'] = [op for op in c['steps'] if op[0] != 'ARM']
            yield c
    for k, v in (('cfg', None), ('tempdir', False), ('reverse', False),
                 ('perms', None), ('missing', None)):
        if case.get(k) != v:
            c = copy.deepcopy(case)
            c[k] = v
            yield c


def selfcheck(agg):
    errs = []
    bad = comparator_agrees()
    if bad:
        errs.append('reference comparator disagrees with petl.Comparable on '
                    '%d pairs, e.g. %r' % (len(bad), bad[0]))
    if agg['truncated'] or agg['evaluations'] < 5000:
        return errs
    for p in ('chunked-path', 'buffersize==nrows', 'equal-keys-across-chunks',
              'reverse-chunk-merge-with-ties', 'pass-from-memcache',
              'buffersize-sweeps',
              'pass-from-filecache', 'key-none'):
        if not agg['probes'].get(p):
            errs.append('probe never hit: ' + p)
    return errs
