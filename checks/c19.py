"""C19 - the failonerror policy decides exactly what a failing conversion
becomes.

Fault enumeration: the faults are exceptions raised by the user's converter /
mapper / row generator.  For every sampled scenario (operator form, table of
n <= 6 rows, errorvalue, where-mask, consumer mode) the check injects the
failure at EVERY subset of row positions (and failing fields for multi-field
forms) x 3 policies x {argument, petl.config.failonerror}.  Oracle: a small
policy model."""
import itertools

from sim.canon import Log, canon_row, canon_rows, canon_cell
from sim.core import outcome, draw_config
from sim.loader import load_petl

PROP = 'C19'
LEVEL = 'fault_enumeration'
RULE = ('case = scenario (operator form out of 16: convert with callable / '
        'several fields / dict of converters / where= / pass_row= / method '
        'name, convertall, convertnumbers, format(all), interpolate(all), '
        'fieldmap, rowmap, rowmapmany with a generator that yields j rows '
        'before failing; table of n in 0..6 rows (n <= 3 for two-field '
        'forms); errorvalue; where mask; one or two interleaved consumers). '
        'Inside a case the failure is injected at every subset of the '
        'failing positions (2^n, or 2^(2n) cell subsets for two-field forms) '
        'x 3 policies x policy given as argument vs taken from '
        'petl.config.failonerror at construction. Non-trivial: n >= 1. '
        'Distinct: by digest of the scenario.')
STATES = 'operator form x number of rows x exception class x consumers'
COMPONENTS = {
    'real': ['petl convert/convertall/convertnumbers/format*/interpolate*/'
             'fieldmap/rowmap/rowmapmany and petl.config.failonerror'],
    'stub': ['failing user callbacks supplied by the simulator'],
    'model': ['policy model in this module (expected rows / exception per '
              'policy)'],
}
ASSUMPTIONS = [
    'the injected exception is identified by object identity (the very '
    'object the callback raised must surface / be delivered)',
    'natural failures (method-name converters, format strings, number '
    'parsing) are identified by exception type',
]

FORMS = ['convert1', 'convert2', 'convertdict', 'convertwhere',
         'convertpassrow', 'convertmethod', 'convertall', 'convertnumbers',
         'format', 'formatall', 'interpolate', 'interpolateall', 'fieldmap',
         'fieldmap2', 'rowmap', 'rowmapmany', 'fieldmapdict',
         'fieldmapexpr', 'sub', 'fieldmap3', 'fieldmapnofield']
TWO_FIELD = ('convert2', 'convertdict', 'convertall', 'fieldmap2',
             'fieldmap3')
NATURAL = ('fieldmapdict', 'fieldmapexpr', 'sub', 'fieldmapnofield',
           'convertmethod', 'convertnumbers', 'format', 'formatall',
           'interpolate', 'interpolateall')


_CELLKIND = ['int']
_RESUMABLE = [False]


def _cell(code):
    """The table cell that carries `code` (row id * 10 + field digit): an
    int, or a container holding it - what a failing cell looks like must not
    matter to the policy."""
    k = _CELLKIND[0]
    if k == 'tuple2':
        return (code, 'pad')
    if k == 'tuple3':
        return (code, None, 'pad')
    if k == 'list':
        return [code]
    if k == 'str':
        return 'c%d' % code
    if k == 'exc':
        # a cell that holds an exception object (left by an earlier step
        # that ran with failonerror='inline', or simply stored as data): a
        # value like any other, the converter is called with it
        return LookupError(code)
    if k == 'dup':
        # the same text in every row of a field: which cell fails cannot be
        # told from its value (the converter is given the row)
        return 'same%d' % (code % 10)
    return code


def _code(v):
    if isinstance(v, BaseException):
        return v.args[0]
    if isinstance(v, (tuple, list)):
        return v[0]
    if isinstance(v, str):
        return int(v[1:])
    return v


class Injected(Exception):
    def __init__(self, rid, field):
        Exception.__init__(self, 'injected failure at row %r field %r'
                           % (rid, field))
        self.rid = rid
        self.field = field


class InjectedStop(StopIteration):
    """A callback that fails with StopIteration (e.g. next() on an
    exhausted iterator): still an Exception, so the policy applies."""

    def __init__(self, rid, field):
        StopIteration.__init__(self, 'injected StopIteration at row %r '
                               'field %r' % (rid, field))
        self.rid = rid
        self.field = field


class InjectedKey(KeyError):
    def __init__(self, rid, field):
        KeyError.__init__(self, 'injected KeyError at row %r field %r'
                          % (rid, field))
        self.rid = rid
        self.field = field


class InjectedIndex(IndexError):
    def __init__(self, rid, field):
        IndexError.__init__(self, 'injected IndexError at row %r field %r'
                            % (rid, field))
        self.rid = rid
        self.field = field


class InjectedType(TypeError):
    def __init__(self, rid, field):
        TypeError.__init__(self, 'injected TypeError at row %r field %r'
                           % (rid, field))
        self.rid = rid
        self.field = field


class InjectedAttr(AttributeError):
    def __init__(self, rid, field):
        AttributeError.__init__(self, 'injected AttributeError at row %r '
                                'field %r' % (rid, field))
        self.rid = rid
        self.field = field


_KINDS = {'plain': None, 'stop': InjectedStop, 'key': InjectedKey,
          'index': InjectedIndex, 'type': InjectedType, 'attr': InjectedAttr}
INJECTED = (InjectedStop, InjectedKey, InjectedIndex, InjectedType,
            InjectedAttr)


def _inline():
    """The policy name as a string made at run time (read from a settings
    file, normalised with .lower()...): equal to 'inline', not the interned
    literal."""
    return ''.join(['in', 'li', 'ne'])


class Returned(ValueError):
    """An exception object a converter *returns* (an error taken from a
    cell and handed on, a validation result): a value like any other - only
    raising is failing."""


_RETURN_EXC = [False]
_FLAKY = [False]


class Faults(object):
    def __init__(self, fail, kind='plain', lazy=False):
        self.fail = fail          # set of (rid, field)
        self.made = []
        self.cls = _KINDS[kind] or Injected
        self.lazy = lazy
        # flaky mode: a failing cell fails the first time its callback is
        # called and would succeed on a retry (a timeout, a cache miss): the
        # callback did raise, so the policy applies all the same
        self.flaky = _FLAKY[0]
        self.seen = set()

    def failing(self, rid, field):
        if (rid, field) not in self.fail:
            return False
        if self.flaky:
            if (rid, field) in self.seen:
                return False
            self.seen.add((rid, field))
        return True

    def ok(self, v):
        if _RETURN_EXC[0]:
            return Returned('ok', v)
        return ('ok', v)

    def conv(self, field):
        def f(v, *row):
            if _CELLKIND[0] == 'dup':
                rid = row[0][0]     # pass_row=True: the record comes along
            else:
                rid = _code(v) // 10
            if self.failing(rid, field):
                e = self.cls(rid, field)
                self.made.append(e)
                raise e
            return self.ok(v)
        return f

    def recfun(self, field):
        def f(rec):
            v = rec[field]
            rid = _code(v) // 10
            if self.failing(rid, field):
                e = self.cls(rid, field)
                self.made.append(e)
                raise e
            return self.ok(v)
        return f

    def rowmapper(self):
        def f(row):
            rid = row[0]
            if self.failing(rid, 'row'):
                e = self.cls(rid, 'row')
                self.made.append(e)
                raise e
            return [rid, 'mapped', len(row)]

        def lazy(row):
            # returns a lazy iterable that fails while it is consumed
            rid = row[0]
            n = len(row)

            def cells():
                yield rid
                if self.failing(rid, 'row'):
                    e = Injected(rid, 'row')
                    self.made.append(e)
                    raise e
                yield 'mapped'
                yield n
            return cells()
        return lazy if self.lazy else f

    def rowgen(self, j):
        def item(rid, i):
            if (rid, 'row') in self.fail and i == j[rid % len(j)]:
                e = self.cls(rid, 'row') \
                    if self.cls is not InjectedStop else \
                    Injected(rid, 'row')
                self.made.append(e)
                raise e
            return [rid, i]

        def resumable(row):
            # not a generator: an iterator that could be asked again after
            # it raised (map over the parts of a record); the failing row's
            # output still ends with the failure
            rid = row[0]
            return map(lambda i: item(rid, i), range(3))
        if _RESUMABLE[0]:
            return resumable

        def g(row):
            rid = row[0]
            for i in range(3):
                if (rid, 'row') in self.fail and i == j[rid % len(j)]:
                    e = self.cls(rid, 'row') \
                        if self.cls is not InjectedStop else \
                        Injected(rid, 'row')
                    self.made.append(e)
                    raise e
                yield [rid, i]
        return g


def budget(tier):
    if tier == 'quick':
        return {'cases': 4800, 'wall_cap_s': 240}
    return {'cases': 100000, 'wall_cap_s': 1500}


def gen_case(rng, tier, g):
    case = _gen_case(rng, tier, g)
    case['fluent'] = rng.random() < 0.15
    case['resumable'] = case['form'] == 'rowmapmany' and rng.random() < 0.4
    r_ = rng.random()
    if r_ < 0.15:
        case['upstream'] = 'records'
        case['fluent'] = False
    elif r_ < 0.3:
        case['upstream'] = 'policy-view'
    # the host application's petl.config / logging set-up must not matter
    cfg = draw_config(rng, 0.12, exclude=('failonerror',))
    if cfg:
        case['config'] = cfg
    return case


def _gen_case(rng, tier, g):
    case = _gen_case_(rng, tier, g)
    if rng.random() < 0.025:
        # a long table with long runs of consecutive failing rows (not every
        # subset: the listed runs only): whatever handling a failure costs
        # - a stack frame, a retry - is paid a thousand times in a row
        n = rng.choice([1100, 1500, 2600])
        lo = rng.choice([0, 0, 1, 40])
        hi = rng.choice([n, n, n - 1, n - 40])
        case['n'] = n
        case['where'] = [rng.random() < 0.9 for _ in range(n)]
        case['failsets'] = [[lo, hi, rng.choice([1, 2])], [0, 0, 1]]
        case['consumers'] = 1
    return case


def _gen_case_(rng, tier, g):
    form = FORMS[g % len(FORMS)]
    nmax = 3 if form in TWO_FIELD else 6
    n = rng.randint(0, nmax)
    # (falsy error values are values like any other)
    ev = rng.choice(['none', 'ERR', 'obj', 'none', 'zero', 'empty', 'false',
                     'class', 'func', 'inst'])
    where = [rng.random() < 0.6 for _ in range(n)]
    # natural-failure forms: which cells are of the failing kind is part of
    # the table (enumerated inside the case as well)
    if form == 'sub':
        ev = 'none'
    return {'prop': PROP, 'form': form, 'n': n, 'errorvalue': ev,
            'where': where, 'consumers': rng.choice([1, 1, 2]),
            'j': [rng.randint(0, 2) for _ in range(3)],
            'exc_kind': rng.choice(['plain', 'plain', 'stop', 'key', 'index',
                                    'type', 'attr']),
            'lazy': rng.random() < 0.5,
            'cellkind': 'dup' if (form == 'convertpassrow'
                                  and rng.random() < 0.5)
            else rng.choice(['int', 'int', 'tuple2', 'tuple3', 'list',
                             'str', 'exc']) if form not in NATURAL
            else 'int',
            'extra_col': rng.random() < 0.5 and form != 'convertnumbers',
            'flaky': rng.random() < 0.2,
            'suffix': rng.random() < 0.3,
            'long': [rng.random() < 0.5 for _ in range(3)]
            if rng.random() < 0.3 else None,
            'short': [rng.random() < 0.5 for _ in range(3)]
            if rng.random() < 0.3 else None,
            # converters that succeed by returning an exception object
            'returns_exc': form in ('convert1', 'convert2', 'convertdict',
                                    'convertwhere', 'convertpassrow',
                                    'convertall', 'fieldmap', 'fieldmap2',
                                    'fieldmap3')
            and rng.random() < 0.2}


_EV_OBJ = ('sentinel-errorvalue',)
_TRANSLATE = {1: 'one', 21: 'twenty-one', 41: 'forty-one'}
class _Marker(object):
    """An error value that happens to be callable (a marker class)."""

    def __repr__(self):
        return '<marker instance>'      # (no address: event logs are hashed)


# (a plain object: equal to nothing but itself, and copy() makes another)
_EV_INST = _Marker()
_EVS = {'none': None, 'ERR': 'ERR', 'obj': _EV_OBJ, 'zero': 0, 'empty': '',
        'false': False, 'class': _Marker, 'func': str, 'inst': _EV_INST}


def _table(case, natural_fail=None):
    n = case['n']
    rows = [['id', 'v', 'w'] + (['x'] if case['extra_col'] else [])]
    for r in range(n):
        if natural_fail is None:
            row = [r, _cell(r * 10 + 1), _cell(r * 10 + 2)]
        else:
            # cells that make the natural conversions fail when selected
            row = [r, natural_fail.get((r, 'v'), r * 10 + 1),
                   natural_fail.get((r, 'w'), r * 10 + 2)]
        if case['extra_col']:
            row.append('keep%d' % r)
        if _is_long(case, r):
            # a row longer than the header: convert carries the surplus
            # cells over unchanged
            row.append('surplus%d' % r)
        if _is_short(case, r):
            # a row that ends after field v: a mapping that refers to a
            # field the row lacks sees None there, whatever errorvalue is
            row = row[:2]
        rows.append(row)
    return rows


LONG_FORMS = ('convert1', 'convert2', 'convertdict', 'convertwhere',
              'convertpassrow')


SHORT_FORMS = ('fieldmap', 'fieldmapdict', 'fieldmapexpr')


def _is_short(case, r):
    short = case.get('short')
    return bool(short) and case['form'] in SHORT_FORMS and \
        short[r % len(short)]


def _is_long(case, r):
    long = case.get('long')
    return bool(long) and case['form'] in LONG_FORMS and long[r % len(long)]


def _same(v):
    return v


def _build(e, case, fl, policy, mode, tbl):
    """-> view, built with the policy as argument or from the config."""
    if case.get('fluent'):
        from sim.loader import Fluent
        e = Fluent(e)
    form = case['form']
    if case.get('upstream') == 'records' and len(tbl) and tbl[0]:
        # the table reaches the operator through earlier stages that hand
        # their rows on as record objects made under OTHER field names (a
        # conditional convert passes the rows it does not select on as they
        # are), renamed afterwards: rows are rows, whatever class they have
        # (materialised rows of such a pipeline, put under a new header by
        # hand; only prefixheader/suffixheader pass record objects through
        # unchanged, and the forms here need their own field names)
        from petl.util.base import Record
        flds = ['q%d' % i for i in range(len(tbl[0]))]
        tbl = [tbl[0]] + [Record(r, flds) for r in tbl[1:]]
    if case.get('upstream') == 'policy-view':
        # the table is itself a convert view with a policy of its own (and
        # a conversion that never fails): policies are not inherited
        other = False if policy is True else True
        tbl = e.convert(tbl, 'id', _same, failonerror=other)
    kw = {}
    if mode == 'arg':
        kw['failonerror'] = policy
    ev = _EVS[case['errorvalue']]
    evkw = dict(kw)
    if case['errorvalue'] != 'none':
        evkw['errorvalue'] = ev
    where = None
    if form == 'convertwhere':
        mask = case['where']

        def where(rec):
            return mask[rec['id']]
    if form == 'convert1':
        return e.convert(tbl, 'v', fl.conv('v'), **evkw)
    if form == 'convert2':
        return e.convert(tbl, ('v', 'w'), _both(fl), pass_row=False, **evkw)
    if form == 'convertdict':
        return e.convert(tbl, {'v': fl.conv('v'), 'w': fl.conv('w')}, **evkw)
    if form == 'convertwhere':
        return e.convert(tbl, 'v', fl.conv('v'), where=where, **evkw)
    if form == 'convertpassrow':
        return e.convert(tbl, 'v', fl.conv('v'), pass_row=True, **evkw)
    if form == 'convertmethod':
        return e.convert(tbl, 'v', 'upper', **evkw)
    if form == 'convertall':
        return e.convertall(e.cut(tbl, 'v', 'w'), _both(fl), **evkw)
    if form == 'convertnumbers':
        return e.convertnumbers(tbl, strict=True, **evkw)
    if form == 'format':
        return e.format(tbl, 'v', '{:d}', **evkw)
    if form == 'formatall':
        return e.formatall(e.cut(tbl, 'v'), '{:d}', **evkw)
    if form == 'interpolate':
        return e.interpolate(tbl, 'v', '%d', **evkw)
    if form == 'interpolateall':
        return e.interpolateall(e.cut(tbl, 'v'), '%d', **evkw)
    if form == 'sub':
        # a convenience wrapper of convert without policy arguments of its
        # own: the global default is all there is
        return e.sub(tbl, 'v', 'b', 'B')
    if form == 'fieldmapexpr':
        # a mapping given as an expression string: evaluating it on a text
        # cell fails (TypeError)
        from collections import OrderedDict
        m = OrderedDict([('id', 'id'), ('v', '{v} + 1'), ('w', 'w')] +
                        ([('x', 'x')] if case['extra_col'] else []))
        return _fieldmap(e, case, tbl, m, evkw)
    if form == 'fieldmapdict':
        # a translation dictionary: looking an unhashable cell up in it
        # fails (TypeError), which is a failing mapping like any other
        from collections import OrderedDict
        m = OrderedDict([('id', 'id'), ('v', ('v', dict(_TRANSLATE))),
                         ('w', 'w')] + ([('x', 'x')] if case['extra_col']
                                        else []))
        return _fieldmap(e, case, tbl, m, evkw)
    if form == 'fieldmapnofield':
        # a mapping that names a field the table does not have: it fails
        # for every row (KeyError), and is a failing mapping like any other
        from collections import OrderedDict
        m = OrderedDict([('id', 'id'), ('v', ('nosuch', _same)),
                         ('w', 'w')] + ([('x', 'x')] if case['extra_col']
                                        else []))
        return _fieldmap(e, case, tbl, m, evkw)
    if form == 'fieldmap':
        from collections import OrderedDict
        m = OrderedDict([('id', 'id'), ('V', ('v', fl.conv('v'))),
                         ('c', 'w')])
        return _fieldmap(e, case, tbl, m, evkw)
    if form == 'fieldmap2':
        from collections import OrderedDict
        m = OrderedDict([('V', fl.recfun('v')), ('id', 'id'),
                         ('W', ('w', fl.conv('w')))])
        return _fieldmap(e, case, tbl, m, evkw)
    if form == 'fieldmap3':
        # two fields that can fail, with further fields after them
        from collections import OrderedDict
        m = OrderedDict([('V', fl.recfun('v')), ('W', ('w', fl.conv('w'))),
                         ('id', 'id'), ('tail', lambda rec: 'tail'),
                         ('v0', 'v')])
        return _fieldmap(e, case, tbl, m, evkw)
    if form == 'rowmap':
        return e.rowmap(tbl, fl.rowmapper(), header=['id', 'm', 'n'], **kw)
    if form == 'rowmapmany':
        return e.rowmapmany(tbl, fl.rowgen(case['j']), header=['id', 'i'],
                            **kw)
    raise ValueError(form)


def _fieldmap(e, case, tbl, m, evkw):
    if case.get('suffix'):
        # the documented suffix notation: a view without mappings, each one
        # assigned afterwards (the view must start out with none - and must
        # not share them with any other view)
        view = e.fieldmap(tbl, **evkw)
        for k, mm in m.items():
            view[k] = mm
        return view
    return e.fieldmap(tbl, m, **evkw)


def _both(fl):
    """One converter applied to both fields v and w: the field is recovered
    from the cell (v cells end in 1, w cells in 2)."""
    def f(v, *row):
        field = 'v' if _code(v) % 10 == 1 else 'w'
        return fl.conv(field)(v)
    return f


class Expect(object):
    """rows: list of expected rows where a cell may be the marker
    ('EXC', rid, field) or ('EV',); raise_at: index of the output row at which
    the exception (rid, field) must surface under policy True, or None."""


def _model(case, fail, policy):
    """Expected output under `policy`.  Returns (rows, raise_marker) where
    rows is the full expected list for False / 'inline', and for True the
    rows delivered before the exception plus the marker of the exception."""
    form, n = case['form'], case['n']
    x = (['x'] if case['extra_col'] else [])
    rows = []
    raised = None

    def cellres(rid, field, val):
        nonlocal raised
        if (rid, field) in fail:
            if policy is True:
                raised = raised or ('EXC', rid, field)
                return None
            if policy == 'inline':
                return ('EXC', rid, field)
            return ('EV',)
        return ('ok', val)

    if form in ('convert1', 'convertpassrow', 'convertwhere', 'convert2',
                'convertdict'):
        hdr = ['id', 'v', 'w'] + x
        rows.append(hdr)
        two = form in ('convert2', 'convertdict')
        for r in range(n):
            sel = case['where'][r] if form == 'convertwhere' else True
            v, w = _cell(r * 10 + 1), _cell(r * 10 + 2)
            if sel:
                cv = cellres(r, 'v', v)
                if raised:
                    break
                cw = cellres(r, 'w', w) if two else w
                if raised:
                    break
            else:
                cv, cw = v, w
            rows.append([r, cv, cw] + (['keep%d' % r] if x else []) +
                        (['surplus%d' % r] if _is_long(case, r) else []))
    elif form == 'convertall':
        rows.append(['v', 'w'])
        for r in range(n):
            cv = cellres(r, 'v', _cell(r * 10 + 1))
            if raised:
                break
            cw = cellres(r, 'w', _cell(r * 10 + 2))
            if raised:
                break
            rows.append([cv, cw])
    elif form == 'fieldmap':
        rows.append(['id', 'V', 'c'])
        for r in range(n):
            cv = cellres(r, 'v', _cell(r * 10 + 1))
            if raised:
                break
            rows.append([r, cv, None if _is_short(case, r)
                         else _cell(r * 10 + 2)])
    elif form == 'fieldmap2':
        rows.append(['V', 'id', 'W'])
        for r in range(n):
            cv = cellres(r, 'v', _cell(r * 10 + 1))
            if raised:
                break
            cw = cellres(r, 'w', _cell(r * 10 + 2))
            if raised:
                break
            rows.append([cv, r, cw])
    elif form == 'fieldmap3':
        rows.append(['V', 'W', 'id', 'tail', 'v0'])
        for r in range(n):
            cv = cellres(r, 'v', _cell(r * 10 + 1))
            if raised:
                break
            cw = cellres(r, 'w', _cell(r * 10 + 2))
            if raised:
                break
            rows.append([cv, cw, r, 'tail', _cell(r * 10 + 1)])
    elif form == 'rowmap':
        rows.append(['id', 'm', 'n'])
        for r in range(n):
            if (r, 'row') in fail:
                if policy is True:
                    raised = ('EXC', r, 'row')
                    break
                if policy == 'inline':
                    rows.append([('EXC', r, 'row')])
                continue
            rows.append([r, 'mapped', 3 + len(x)])
    elif form == 'rowmapmany':
        rows.append(['id', 'i'])
        j = case['j']
        for r in range(n):
            stop = j[r % len(j)] if (r, 'row') in fail else None
            for i in range(3):
                if stop is not None and i == stop:
                    break
                rows.append([r, i])
            if stop is not None:
                if policy is True:
                    raised = ('EXC', r, 'row')
                    break
                if policy == 'inline':
                    rows.append([('EXC', r, 'row')])
    return rows, raised


def _natural_model(case, failcells, policy):
    """Forms whose failures are natural (type of the cell)."""
    form, n = case['form'], case['n']
    x = (['x'] if case['extra_col'] else [])
    rows = []
    raised = None

    def res(rid, good):
        nonlocal raised
        if (rid, 'v') in failcells:
            if policy is True:
                raised = ('NAT', rid)
                return None
            if policy == 'inline':
                return ('NAT', rid)
            return ('EV',)
        return good

    if form in ('formatall', 'interpolateall'):
        rows.append(['v'])
    else:
        rows.append(['id', 'v', 'w'] + x)
    for r in range(n):
        v = r * 10 + 1
        if form == 'convertmethod':
            good = 'ABC%d' % r
        elif form == 'fieldmapdict':
            good = _TRANSLATE.get(v, v)
        elif form == 'fieldmapexpr':
            good = v + 1
        elif form == 'sub':
            good = 'aBc%d' % r
        elif form == 'convertnumbers':
            good = v
        elif form in ('format', 'formatall'):
            good = '{:d}'.format(v)
        else:
            good = '%d' % v
        c = res(r, good)
        if raised:
            break
        if form in ('formatall', 'interpolateall'):
            rows.append([c])
        elif form == 'convertnumbers':
            rows.append([r, c, r * 10 + 2] + (['keep%d' % r] if x else []))
        elif _is_short(case, r):
            rows.append([r, c, None] + ([None] if x else []))
        else:
            rows.append([r, c, r * 10 + 2] + (['keep%d' % r] if x else []))
    return rows, raised


def _natural_cells(case, failcells):
    """Table cells for the natural-failure forms."""
    form = case['form']
    cells = {}
    for r in range(case['n']):
        bad = (r, 'v') in failcells
        if form == 'fieldmapdict':
            cells[(r, 'v')] = [r] if bad else r * 10 + 1
        elif form == 'sub':
            cells[(r, 'v')] = (r * 10 + 1) if bad else 'abc%d' % r
        elif form == 'convertmethod':
            # (None has no string methods either)
            cells[(r, 'v')] = ((r * 10 + 1) if r % 2 else None) if bad \
                else 'abc%d' % r
        elif form == 'convertnumbers':
            cells[(r, 'v')] = 'notnum%d' % r if bad else str(r * 10 + 1)
        else:
            cells[(r, 'v')] = 'str%d' % r if bad else r * 10 + 1
    return cells


class _Mismatch(Exception):
    pass


def _match_cell(got, want, fl, ev):
    if _RETURN_EXC[0] and isinstance(want, tuple) and len(want) == 2 \
            and want[0] == 'ok':
        return type(got) is Returned and (
            got.args == want or canon_cell(got.args) == canon_cell(want))
    if isinstance(want, tuple) and want and want[0] == 'EXC':
        if not isinstance(got, (Injected,) + INJECTED):
            return False
        return got.rid == want[1] and got.field == want[2] and \
            any(got is m for m in fl.made)
    if isinstance(want, tuple) and want and want[0] == 'NAT':
        return isinstance(got, Exception)
    if want == ('EV',):
        if ev is _EV_OBJ or ev is _EV_INST or callable(ev):
            return got is ev
        return got == ev and type(got) is type(ev)
    if type(got) is not type(want):
        return False
    # (cells may hold exception objects as data: two of them with the same
    # class and arguments are the same value here)
    return got == want or canon_cell(got) == canon_cell(want)


def _compare(rows, want, fl, ev, what):
    if len(rows) != len(want):
        raise _Mismatch('%s: %d rows delivered, expected %d: got %r '
                        'expected %r' % (what, len(rows), len(want), rows,
                                         want))
    for i, (g, w) in enumerate(zip(rows, want)):
        g = list(g)
        if len(g) != len(w) or not all(_match_cell(a, b, fl, ev)
                                       for a, b in zip(g, w)):
            raise _Mismatch('%s: row %d is %r, expected %r'
                            % (what, i, g, w))


def _run_view(view, consumers):
    """Iterate with one consumer, or two interleaved in lock step.  Returns
    per consumer (rows, exception or None)."""
    its = [iter(view) for _ in range(consumers)]
    res = [([], None) for _ in range(consumers)]
    live = list(range(consumers))
    out_rows = [[] for _ in range(consumers)]
    out_exc = [None] * consumers
    while live:
        for c in list(live):
            try:
                out_rows[c].append(next(its[c]))
            except StopIteration:
                live.remove(c)
            except Exception as ex:
                out_exc[c] = ex
                live.remove(c)
    return list(zip(out_rows, out_exc))


def _subsets(case, points):
    """Every subset of the fault points; or, for a long table, the listed
    runs of consecutive failing rows only."""
    if case['form'] == 'fieldmapnofield':
        # (every row fails, whatever it holds)
        yield set(points)
        return
    if case.get('failsets'):
        fields = sorted(set(f for _, f in points))
        for lo, hi, nf in case['failsets']:
            yield set((r, f) for r in range(lo, min(hi, case['n']))
                      for f in fields[:nf])
        return
    for k in range(len(points) + 1):
        for sub in itertools.combinations(points, k):
            yield set(sub)


def run_case(case):
    e = load_petl()
    import petl.config as config
    log = Log()
    form, n = case['form'], case['n']
    ev = _EVS[case['errorvalue']]
    natural = form in NATURAL
    if form in TWO_FIELD:
        points = [(r, f) for r in range(n) for f in ('v', 'w')]
    elif form in ('rowmap', 'rowmapmany'):
        points = [(r, 'row') for r in range(n)]
    else:
        points = [(r, 'v') for r in range(n)]
    nruns = 0
    fired = 0
    saved = config.failonerror
    _CELLKIND[0] = case.get('cellkind', 'int')
    _RETURN_EXC[0] = bool(case.get('returns_exc'))
    _FLAKY[0] = bool(case.get('flaky')) and case['consumers'] == 1
    _RESUMABLE[0] = bool(case.get('resumable'))
    try:
        # a decoy view of the same form, iterated first with another
        # errorvalue under policy False: a view's error handling must not
        # leak into the views built after it
        if not natural and points:
            dfl = Faults(set(points[:1]), case.get('exc_kind', 'plain'),
                         case.get('lazy', False))
            dcase = dict(case, errorvalue='ERR' if case['errorvalue'] != 'ERR'
                         else 'obj')
            config.failonerror = True
            try:
                _run_view(_build(e, dcase, dfl, False, 'arg', _table(case)),
                          1)
            except Exception:
                pass
        if case.get('suffix') and form.startswith('fieldmap'):
            # another view configured through the suffix notation, with a
            # field of its own: views do not share their mappings
            try:
                d = e.fieldmap(_table(case))
                d['decoy_field'] = 'id'
                _run_view(d, 1)
                del d
            except Exception:
                pass
        for _once in (1,):
            for fail in _subsets(case, points):
                if natural:
                    tbl = _table(case, _natural_cells(case, fail))
                else:
                    tbl = _table(case)
                for policy in (False, True, _inline()):
                    if natural:
                        want, raised = _natural_model(case, fail, policy)
                    else:
                        want, raised = _model(case, fail, policy)
                    modes = ('arg', 'config')
                    if form == 'sub':
                        modes = ('config',)
                    if form in ('convert1', 'fieldmap'):
                        # the converter is installed on an existing view
                        # (view[field] = ...) after it has been iterated once
                        # with a harmless converter
                        modes = ('arg', 'config', 'setitem')
                    for mode in modes:
                        fl = Faults(fail, case.get('exc_kind', 'plain'),
                                    case.get('lazy', False))
                        if mode == 'setitem':
                            config.failonerror = False if policy else True
                            view = _build(e, case, Faults(set()), policy,
                                          'arg', tbl)
                            _run_view(view, 1)
                            if form == 'convert1':
                                view['v'] = fl.conv('v')
                            else:
                                view['V'] = ('v', fl.conv('v'))
                            results = _run_view(view, case['consumers'])
                        else:
                            results = None
                        # the default is read at construction: set it, build,
                        # then set it to something else before iterating
                        if results is None:
                            config.failonerror = policy if mode == 'config' \
                                else (_inline() if policy is not True
                                      else False)
                            view = _build(e, case, fl, policy, mode, tbl)
                            config.failonerror = False if policy else True
                            results = _run_view(view, case['consumers'])
                        nruns += 1
                        fired += len(fl.made)
                        what = '%s(n=%d, failing=%r, failonerror=%r via %s)' \
                            % (form, n, sorted(fail), policy, mode)
                        for ci, (rows, exc) in enumerate(results):
                            log.add('run', what, ci, canon_rows(rows),
                                    type(exc).__name__ if exc else None)
                            if raised is None:
                                if exc is not None:
                                    raise _Mismatch(
                                        '%s: raised %s: %s; the policy says '
                                        'nothing is raised'
                                        % (what, type(exc).__name__, exc))
                            else:
                                if exc is None:
                                    raise _Mismatch(
                                        '%s: no exception surfaced, '
                                        'expected the failure of row %r'
                                        % (what, raised[1:]))
                                if raised[0] == 'EXC':
                                    inj = exc
                                    if isinstance(exc, RuntimeError) and \
                                            isinstance(exc.__cause__,
                                                       InjectedStop):
                                        # PEP 479: a StopIteration leaving a
                                        # generator surfaces as RuntimeError
                                        # caused by it
                                        inj = exc.__cause__
                                    if not (isinstance(inj, (Injected,)
                                                       + INJECTED)
                                            and any(inj is m
                                                    for m in fl.made)
                                            and inj.rid == raised[1]
                                            and inj.field == raised[2]):
                                        raise _Mismatch(
                                            '%s: surfaced %r, expected the '
                                            'injected exception object of '
                                            'row %r field %r'
                                            % (what, exc, raised[1],
                                               raised[2]))
                                elif isinstance(exc, (Injected,) + INJECTED) \
                                        or isinstance(exc, StopIteration):
                                    raise _Mismatch('%s: surfaced %r'
                                                    % (what, exc))
                            _compare(rows, want, fl, ev, what)
    except _Mismatch as m:
        return outcome('violation', vclass='policy-mismatch', msg=str(m),
                       sig={'form': form, 'vclass': 'policy-mismatch',
                            'exc_kind': case.get('exc_kind', 'plain')},
                       digest=log.hexdigest(), steps=nruns,
                       fired={'callback-raise': fired},
                       extra={'group': form})
    except Exception as ex:
        return outcome('violation', vclass='unexpected-exception',
                       msg='%s: %s: %s' % (form, type(ex).__name__, ex),
                       sig={'form': form, 'vclass': 'unexpected-exception',
                            'exc': type(ex).__name__},
                       digest=log.hexdigest(), steps=nruns,
                       extra={'group': form})
    finally:
        config.failonerror = saved
        _CELLKIND[0] = 'int'
        _RETURN_EXC[0] = False
        _FLAKY[0] = False
        _RESUMABLE[0] = False
    return outcome('ok', digest=log.hexdigest(), steps=nruns,
                   probes={'form:' + form: 1, 'fault-points-x-policies-x-modes':
                           nruns, 'two-consumers': case['consumers'] - 1,
                           'exc-kind:' + case.get('exc_kind', 'plain'): 1,
                           'lazy-failing-rowmapper': int(
                               bool(case.get('lazy')) and form == 'rowmap')},
                   fired={'callback-raise': fired}, nontrivial=n >= 1,
                   states=['%s:%d:%s:%d' % (form, n, case.get('exc_kind'),
                                            case['consumers'])],
                   extra={'group': form})


def warmup():
    load_petl()


def shrink_candidates(case):
    import copy
    if case['n'] > 20:
        c = copy.deepcopy(case)
        c['n'] //= 2
        c['where'] = c['where'][:c['n']]
        yield c
    if case['n'] > 0:
        c = copy.deepcopy(case)
        c['n'] -= 1
        c['where'] = c['where'][:c['n']]
        yield c
    if case['consumers'] > 1:
        c = copy.deepcopy(case)
        c['consumers'] = 1
        yield c
    if case['errorvalue'] != 'none':
        c = copy.deepcopy(case)
        c['errorvalue'] = 'none'
        yield c
    if case['extra_col']:
        c = copy.deepcopy(case)
        c['extra_col'] = False
        yield c
    if case.get('exc_kind', 'plain') != 'plain':
        c = copy.deepcopy(case)
        c['exc_kind'] = 'plain'
        yield c
    if case.get('lazy'):
        c = copy.deepcopy(case)
        c['lazy'] = False
        yield c
    if case.get('cellkind', 'int') != 'int':
        c = copy.deepcopy(case)
        c['cellkind'] = 'int'
        yield c


def selfcheck(agg):
    if agg['truncated'] or agg['evaluations'] < 500:
        return []
    missing = [f for f in FORMS if 'form:' + f not in agg['probes']]
    return ['forms never ran: %s' % missing] if missing else []


def evidence_extra(tier):
    return {'exhaustive_within_case': 'every subset of failing positions x 3 '
            'policies x 2 ways of giving the policy is enumerated inside each '
            'sampled scenario; the scenarios themselves are sampled',
            'forms': FORMS}
