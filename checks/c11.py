"""C11 - execution-strategy arguments never change results.

Two machines over the sort-backed operators:
  knobs   : the default call is the reference; the same call is repeated
            under buffersize 1..n+1, tempdir, cache on/off, a small global
            petl.config.sort_buffersize and presorted=True on inputs
            presorted by petl's own sort; two passes each.
  history : the cache clause as a history of (edit source, iterate) steps on
            metered sources against a three-case cache model."""
import gc
import itertools
import os

from sim import devices
from sim.canon import Log, dec_table, enc_table, canon_rows, canon_row, enc
from sim.catalogue import (f_reducer, f_groupmapper, f_fold, _count)
from sim.core import outcome, ddmin_lists, draw_config, not_a_harness_bug
from sim.devices import (SimTable, SimSourceError, SOURCE_ERROR_KINDS,
                         INJECTED_SOURCE_FAILURES)
from sim.gen import gen_table
from sim.loader import load_petl

PROP = 'C11'
LEVEL = 'exploration'
RULE = ('case = machine knobs: (sort-backed operator, 1..2 source tables, a '
        'list of strategy variants: buffersize in 1..n+1, tempdir, '
        'cache=False, petl.config.sort_buffersize in {1,2,3}, presorted=True '
        'on inputs presorted by petl.sort with the operator\'s key (after '
        'squaring up where the operator squares up), and pairs of them); '
        'each variant makes two full passes and is compared with the '
        'default call: header, rows, order. machine history: (operator, '
        'cache flag, small or default buffersize, steps PASS(view, full | '
        'abandoned after j rows) / EDIT(source: append, delete, replace a '
        'row)); every full pass is judged by the cache model: cache=False '
        '-> equals the default call on the current contents and pulls from '
        'the sources; cache=True after a completed pass -> equals it and '
        'pulls no data row; before any completed pass -> equals the default '
        'call on some combination of source versions seen at the start of '
        'an earlier pass or now. Non-trivial: the default call did not '
        'raise and some source has at least 2 data rows. Distinct: by '
        'digest of the whole case.')
STATES = ('operator x machine x (knobs: set of knob names exercised | '
          'history: cache flag x sequence of step kinds)')
COMPONENTS = {
    'real': ['petl joins, set operations, dedup, reductions, pivot, '
             'mergesort, unjoin, rowgroupmap, sort; real chunk files'],
    'stub': ['SimTable metered sources (edited between passes)'],
    'model': ['three-case cache model (DESIGN.md C11)'],
}
ASSUMPTIONS = [
    'edits happen only while no iterator is in flight, so "the contents at '
    'the time of the pass" is well defined',
    'configurations without a sort in them (presorted=True, key=None '
    'aggregates) are outside the cache clause',
    'after a completed pass with cache=True, reading header rows again is '
    'tolerated; reading data rows is not',
]


# ---------------------------------------------------------------------------
# operators: build(e, s, kw) -> view or tuple of views

class Op(object):
    def __init__(self, name, nsrc, build, key=None, presorted=True,
                 squares=False, multi=False, rect=False, missing=None,
                 cache_clause=True, reverse=False):
        self.name = name
        self.nsrc = nsrc
        self.build = build
        self.key = key              # key the inputs must be sorted by
        self.presorted = presorted  # accepts presorted=
        self.squares = squares      # squares its inputs up before sorting
        self.multi = multi
        self.rect = rect
        self.missing = missing
        self.cache_clause = cache_clause
        self.reverse = reverse


OPS = {}


def O(name, nsrc, build, **kw):
    OPS[name] = Op(name, nsrc, build, **kw)


O('sort', 1, lambda e, s, kw: e.sort(s[0], 'a', **kw), presorted=False)
O('sort-rev-compound', 1,
  lambda e, s, kw: e.sort(s[0], ('c', 'a'), reverse=True, **kw),
  presorted=False)
O('sort-nokey', 1, lambda e, s, kw: e.sort(s[0], **kw), presorted=False)
O('join', 2, lambda e, s, kw: e.join(s[0], s[1], key='a', **kw), key='a',
  squares=True)
O('join-lrkey', 2, lambda e, s, kw: e.join(s[0], s[1], lkey='a', rkey='c',
                                           **kw), presorted=False,
  squares=True)
O('leftjoin', 2, lambda e, s, kw: e.leftjoin(s[0], s[1], key='a',
                                             missing='M', **kw), key='a',
  squares=True, missing='M')
O('rightjoin', 2, lambda e, s, kw: e.rightjoin(s[0], s[1], key='a', **kw),
  key='a', squares=True)
O('outerjoin', 2, lambda e, s, kw: e.outerjoin(s[0], s[1], key='a', **kw),
  key='a', squares=True)
O('antijoin', 2, lambda e, s, kw: e.antijoin(s[0], s[1], key='a', **kw),
  key='a', rect=True)
O('lookupjoin', 2, lambda e, s, kw: e.lookupjoin(s[0], s[1], key='a', **kw),
  key='a', squares=True)
# (without a key, "sorted by the key" means sorted by the value field)
O('unjoin', 1, lambda e, s, kw: e.unjoin(s[0], 'b', **kw), key='b',
  multi=True, rect=True)
O('unjoin-key', 1, lambda e, s, kw: e.unjoin(s[0], 'b', key='a', **kw),
  key='a', multi=True, rect=True)
O('complement', 2, lambda e, s, kw: e.complement(s[0], s[1], **kw),
  key=None, rect=True)
O('complement-strict', 2, lambda e, s, kw: e.complement(s[0], s[1],
                                                       strict=True, **kw),
  key=None, rect=True)
O('intersection', 2, lambda e, s, kw: e.intersection(s[0], s[1], **kw),
  key=None, rect=True)
O('diff', 2, lambda e, s, kw: e.diff(s[0], s[1], **kw), key=None, rect=True,
  multi=True)
O('recordcomplement', 2, lambda e, s, kw: e.recordcomplement(s[0], s[1],
                                                             **kw),
  presorted=False, rect=True)
O('recorddiff', 2, lambda e, s, kw: e.recorddiff(s[0], s[1], **kw),
  presorted=False, rect=True, multi=True)
O('duplicates', 1, lambda e, s, kw: e.duplicates(s[0], 'a', **kw), key='a')
O('duplicates-nokey', 1, lambda e, s, kw: e.duplicates(s[0], **kw), key=None,
  rect=True)
# (the key given as field index 0, which is falsy)
O('distinct-key0', 1, lambda e, s, kw: e.distinct(s[0], 0, **kw), key='a')
O('groupselectfirst-key0', 1,
  lambda e, s, kw: e.groupselectfirst(s[0], 0, **kw), key='a')
O('unique', 1, lambda e, s, kw: e.unique(s[0], 'a', **kw), key='a')
O('distinct', 1, lambda e, s, kw: e.distinct(s[0], 'a', **kw), key='a')
O('distinct-count', 1, lambda e, s, kw: e.distinct(s[0], count='n', **kw),
  key=None, rect=True)
O('conflicts', 1, lambda e, s, kw: e.conflicts(s[0], 'a', **kw), key='a')
O('rowreduce', 1, lambda e, s, kw: e.rowreduce(s[0], 'a', f_reducer,
                                               header=['k', 'n'], **kw),
  key='a')
O('aggregate', 1, lambda e, s, kw: e.aggregate(s[0], 'a', _count, 'c', **kw),
  key='a')
# (fields given by position: the key by index 1, the value by index 2)
O('aggregate-keyindex', 1,
  lambda e, s, kw: e.aggregate(s[0], 1, list, 'c', **kw), key='b')
O('aggregate-valueindex', 1,
  lambda e, s, kw: e.aggregate(s[0], 'a', list, 2, **kw), key='a')
O('aggregate-multi', 1,
  lambda e, s, kw: e.aggregate(s[0], 'a', {'n': len, 'cs': ('c', list)},
                               **kw), key='a')
O('aggregate-compound', 1,
  lambda e, s, kw: e.aggregate(s[0], ('a', 'b'), len, **kw), key=('a', 'b'))
O('fold', 1, lambda e, s, kw: e.fold(s[0], 'a', f_fold, value='c', **kw),
  key='a')
O('groupselectfirst', 1, lambda e, s, kw: e.groupselectfirst(s[0], 'a', **kw),
  key='a')
O('groupselectlast', 1, lambda e, s, kw: e.groupselectlast(s[0], 'a', **kw),
  key='a')
O('groupselectmin', 1, lambda e, s, kw: e.groupselectmin(s[0], 'a', 'c',
                                                         **kw), key='a')
O('groupselectmax', 1, lambda e, s, kw: e.groupselectmax(s[0], 'a', 'c',
                                                         **kw), key='a')
O('mergeduplicates', 1, lambda e, s, kw: e.mergeduplicates(s[0], 'a', **kw),
  key='a')
# a `missing` marker that is an object of the caller's (not None, not an
# interned constant): the table cells hold that very object, and rows that
# went through a chunk file come back holding an equal copy of it
_MARK = ('n/a', 0)


def _mark(v):
    # a good part of the cells becomes the marker object itself
    if v is None or v == '' or v == 1 or v == 'x' or v == 2:
        return _MARK
    return v


O('mergeduplicates-marker', 1,
  lambda e, s, kw: e.mergeduplicates(e.convert(s[0], ('b', 'c'), _mark), 'a',
                                     missing=_MARK, **kw), key='a')
O('conflicts-marker', 1,
  lambda e, s, kw: e.conflicts(e.convert(s[0], ('b', 'c'), _mark), 'a',
                               missing=_MARK, **kw), key='a')
O('merge', 2, lambda e, s, kw: e.merge(s[0], s[1], key='a', **kw),
  key='a')
O('merge-rev', 2, lambda e, s, kw: e.merge(s[0], s[1], key='a', reverse=True,
                                           **kw),
  key='a', reverse=True)
O('pivot', 1, lambda e, s, kw: e.pivot(s[0], 'a', 'b', 'c', _count, **kw),
  key=('a', 'b'))
O('mergesort', 2, lambda e, s, kw: e.mergesort(s[0], s[1], key='a', **kw),
  key='a')
O('mergesort-rev', 2, lambda e, s, kw: e.mergesort(s[0], s[1], key='c',
                                                   reverse=True, **kw),
  key='c', reverse=True)
O('rowgroupmap', 1, lambda e, s, kw: e.rowgroupmap(s[0], 'a', f_groupmapper,
                                                   header=['k', 'n'], **kw),
  key='a')
O('recast', 1, lambda e, s, kw: e.recast(e.melt(s[0], 'a',
                                                variables=['b', 'c'])),
  presorted=False, cache_clause=False)

OP_NAMES = sorted(OPS)
# operators that take no strategy arguments at all (only the global default)
NO_KWARGS = ('recast',)


def budget(tier):
    if tier == 'quick':
        return {'cases': 16000, 'wall_cap_s': 240}
    return {'cases': 500000, 'wall_cap_s': 1500}


def _tables(rng, op, maxrows, minrows=0):
    nf = rng.randint(3, 5)
    ragged = False if (op.rect or not op.squares) else None
    prof = rng.choice(['default', 'default', 'nonone', 'mixedkeys', 'int'])
    return [gen_table(rng, maxrows, minrows=minrows, nfields=nf,
                      ragged=ragged, profile=prof)
            for _ in range(op.nsrc)]


def gen_case(rng, tier, g):
    case = _gen_case(rng, tier, g)
    case['fluent'] = rng.random() < 0.15
    # the host application's petl.config / logging set-up must not matter
    cfg = draw_config(rng, 0.12, exclude=('sort_buffersize', 'failonerror'))
    if cfg:
        case['config'] = cfg
    return case


def _gen_case(rng, tier, g):
    name = OP_NAMES[g % len(OP_NAMES)] if rng.random() < 0.8 \
        else rng.choice(OP_NAMES)
    op = OPS[name]
    maxrows = 7 if tier == 'quick' else 10
    big = rng.random() < 0.04
    if big:
        # enough rows for dozens of chunk files (whatever the merge does per
        # so many chunks happens)
        maxrows = rng.choice([18, 24, 40])
    tables = _tables(rng, op, maxrows, minrows=maxrows - 6 if big else 0)
    if len(tables) == 2 and rng.random() < 0.6:
        # the two tables have rows in common (an intersection that is not
        # empty, a complement that removes something)
        for r_ in list(tables[0][1:]):
            if rng.random() < 0.4 and len(tables[1]) <= maxrows:
                tables[1].insert(rng.randint(1, len(tables[1])), list(r_))
    n = max(len(t) - 1 for t in tables)
    if rng.random() < 0.55:
        # ---- knob sweep ------------------------------------------------
        variants = []
        if name not in NO_KWARGS:
            sizes = list(range(1, n + 2))
            if tier == 'quick' or big:
                sizes = rng.sample(sizes, min(len(sizes), 3))
            if big:
                sizes = [1, 2] + sizes
            for b in sizes:
                variants.append({'buffersize': b})
            variants.append({'cache': False})
            variants.append({'tempdir': True})
            variants.append({'buffersize': rng.choice([1, 2, 3]),
                             'cache': False})
            variants.append({'buffersize': rng.choice([1, 2]),
                             'tempdir': True})
            if op.presorted:
                variants.append({'presorted': True})
                variants.append({'presorted': True,
                                 'buffersize': rng.choice([1, 2, 3])})
        variants.append({'cfg': rng.choice([1, 2, 3])})
        variants.append({'cfg': None})
        if name not in NO_KWARGS:
            variants.append({'cfg': rng.choice([1, 2]), 'cache': False})
        return {'prop': PROP, 'machine': 'knobs', 'op': name,
                'tables': tables, 'variants': variants,
                # row container type handed out by each source
                'rowtypes': [rng.choice(['list', 'list', 'tuple'])
                             for _ in tables]}
    # ---- cache history ----------------------------------------------------
    steps = []
    nviews = 2 if op.multi else 1
    for _ in range(rng.randint(2, 6)):
        r = rng.random()
        if r < 0.45:
            steps.append(['PASS', rng.randrange(nviews), None])
        elif r < 0.65:
            steps.append(['PASS', rng.randrange(nviews),
                          rng.randint(0, n + 1)])
        elif r < 0.73:
            # the next pass over this source fails part-way: a failed pass
            # is not a completed one and must not be replayed
            si = rng.randrange(op.nsrc)
            steps.append(['ARM', si, rng.choice([1, 2, 3, max(1, n // 2), n,
                                                 n + 1]),
                          rng.choice(SOURCE_ERROR_KINDS)])
        else:
            si = rng.randrange(op.nsrc)
            kind = rng.choice(['append', 'delete', 'replace', 'permute'])
            if kind == 'permute' and name in ('recordcomplement',
                                              'recorddiff'):
                # these consult the headers when the view is constructed:
                # "the contents at the time of the pass" is not what they
                # are defined on
                kind = 'replace'
            row = gen_table(rng, 1, minrows=1,
                            nfields=len(tables[si][0]), ragged=False,
                            profile='nonone')[1]
            steps.append(['EDIT', si, kind, rng.randrange(8), row])
    steps.append(['PASS', rng.randrange(nviews), None])
    kw = {}
    if rng.random() < 0.5:
        kw['buffersize'] = rng.choice([1, 2, 3])
    case = {'prop': PROP, 'machine': 'history', 'op': name, 'tables': tables,
            'cache': rng.random() < 0.5, 'kw': kw, 'steps': steps}
    if op.presorted and rng.random() < 0.25:
        # the operator's inputs are views themselves
        case['upstream'] = rng.choice(['sort-nocache', 'sort-nocache',
                                       'sort-nocache-buffered', 'wrap'])
    return case


# ---------------------------------------------------------------------------

class _Bad(Exception):
    def __init__(self, vclass, msg):
        Exception.__init__(self, msg)
        self.vclass = vclass
        self.msg = msg


def _rows(view):
    out = []
    for r in iter(view):
        out.append(canon_row(r))
        if len(out) > 5000:
            raise OverflowError('too many rows')
    return out


def _views(v, op):
    return tuple(v) if op.multi else (v,)


def _typed(tables, rowtypes):
    out = []
    for i, t in enumerate(tables):
        conv = tuple if rowtypes and rowtypes[i % len(rowtypes)] == 'tuple' \
            else list
        out.append([conv(r) for r in t])
    return out


# the views the history machine puts between the sources and the operator
# (the same in the run under test and in every reference call)
_UPSTREAM = [None]


def _upstream(e, op, srcs):
    up = _UPSTREAM[0]
    if up is None:
        return srcs
    if up == 'wrap':
        return [e.wrap(s) for s in srcs]
    # an uncached sort on the operator's own key: transparent (a stable sort
    # of a table the operator sorts by the same key anyway), and every pass
    # over it reads the source again
    kw = {'cache': False}
    if up == 'sort-nocache-buffered':
        kw['buffersize'] = 2
    if op.key is None:
        return [e.sort(s, reverse=op.reverse, **kw) for s in srcs]
    return [e.sort(s, op.key, reverse=op.reverse, **kw) for s in srcs]


def _default(e, op, tables, rowtypes=None):
    """Default call on copies of `tables`: list of row lists per view."""
    srcs = [SimTable(t, mode='alias') for t in _typed(tables, rowtypes)]
    srcs = _upstream(e, op, srcs)
    vs = _views(op.build(e, srcs, {}), op)
    return [_rows(v) for v in vs]


def _presort(e, op, tables):
    out = []
    for t in tables:
        src = [list(r) for r in t]
        if op.squares and not _key_cells_present(t, op.key):
            # a row lacks a key cell: the key the operator sees is the
            # padding value, so "sorted by the key" is only well defined on
            # the squared-up table.  Otherwise the rows stay ragged: the
            # presorted path must still square them up itself.
            src = e.stack(src, missing=op.missing)
        v = e.sort(src, op.key, reverse=op.reverse) if op.key is not None \
            else e.sort(src)
        out.append([list(r) for r in iter(v)])
    return out


def _key_cells_present(table, key):
    hdr = [str(h) for h in table[0]]
    keys = key if isinstance(key, (list, tuple)) else [key]
    try:
        idx = [hdr.index(k) for k in keys]
    except ValueError:
        return False
    return all(all(i < len(r) for i in idx) for r in table[1:])


def _style(e, case):
    # the call under test in method-call style (the references keep the
    # function style)
    if case.get('fluent'):
        from sim.loader import Fluent
        return Fluent(e)
    return e


def _run_knobs(e, case, log, sb, probes):
    import petl.config as config
    op = OPS[case['op']]
    tables = [dec_table(t) for t in case['tables']]
    rt = case.get('rowtypes')
    try:
        want = _default(e, op, tables, rt)
    except Exception as ex:
        return None, type(not_a_harness_bug(ex)).__name__
    log.add('default', want)
    td = os.path.join(sb.path, 'td')
    os.mkdir(td)
    nruns = 0
    for var in case['variants']:
        kw = {}
        if 'buffersize' in var:
            kw['buffersize'] = var['buffersize']
        if 'cache' in var:
            kw['cache'] = var['cache']
        if var.get('tempdir'):
            kw['tempdir'] = td
        ins = tables
        if var.get('presorted'):
            try:
                ins = _presort(e, op, tables)
            except Exception:
                continue
            kw['presorted'] = True
            # the default call on the presorted inputs is the reference for
            # this variant (same rows, already in key order)
            try:
                want_v = _default(e, op, ins, rt)
            except Exception:
                continue
        else:
            want_v = want
        saved = config.sort_buffersize
        if 'cfg' in var:
            config.sort_buffersize = var['cfg']
        try:
            srcs = [SimTable(t, mode='alias') for t in _typed(ins, rt)]
            try:
                vs = _views(op.build(_style(e, case), srcs, kw), op)
                for p in (1, 2):
                    got = [_rows(v) for v in vs]
                    nruns += 1
                    log.add('variant', var, p, got)
                    for vi, (g, w) in enumerate(zip(got, want_v)):
                        if g != w:
                            raise _Bad(
                                'result-differs',
                                '%s with %r, pass %d, output %d: %r; the '
                                'default call gives %r'
                                % (case['op'], var, p, vi, g, w))
            except _Bad:
                raise
            except Exception as ex:
                raise _Bad('raised-under-knob',
                           '%s with %r raised %s: %s; the default call does '
                           'not raise' % (case['op'], var,
                                          type(ex).__name__, ex))
            finally:
                vs = None
        finally:
            config.sort_buffersize = saved
        for k in var:
            probes['knob:' + k] = 1
        if len(os.listdir(sb.path)) > 1 or os.listdir(td):
            pass
    return nruns, None


def _apply_edit(table, kind, idx, row):
    if kind == 'permute':
        # the columns (header included) are reordered: the key field sits at
        # another position from now on
        n = len(table[0])
        if n > 1:
            k = 1 + idx % (n - 1)
            for i, r in enumerate(table):
                full = list(r) + [None] * (n - len(r))
                table[i] = full[k:n] + full[:k] + list(r)[n:]
        return
    data = table[1:]
    if kind == 'append' or not data:
        table.append(list(row))
    elif kind == 'delete':
        del table[1 + idx % len(data)]
    else:
        table[1 + idx % len(data)] = list(row)


def _run_history(e, case, log, sb, probes):
    _UPSTREAM[0] = case.get('upstream')
    try:
        return _run_history_(e, case, log, sb, probes)
    finally:
        _UPSTREAM[0] = None


def _default_now(e, op, tables, vi):
    """The default call on the current contents; if that raises (an edit
    made the operator fail) a pass that delivered a table is not showing the
    current contents."""
    try:
        return _default(e, op, tables)[vi]
    except Exception as ex:
        return 'the default call raises %s: %s' % (type(ex).__name__, ex)


def _run_history_(e, case, log, sb, probes):
    op = OPS[case['op']]
    tables = [dec_table(t) for t in case['tables']]
    if case.get('upstream'):
        probes['upstream:' + case['upstream']] = 1
    try:
        _default(e, op, tables)
    except Exception as ex:
        return None, type(not_a_harness_bug(ex)).__name__
    kw = dict(case['kw'])
    cache = case['cache']
    if not cache:
        kw['cache'] = False
    if case['op'] in NO_KWARGS:
        kw = {}
    srcs = [SimTable(t, mode='alias', name='s%d' % i)
            for i, t in enumerate(tables)]
    vs = _views(op.build(_style(e, case), _upstream(e, op, srcs), kw), op)
    # versions of each source seen at the start of a pass
    versions = [[] for _ in tables]
    completed = {}          # view index -> rows of the first completed pass
    any_completed = False
    npass = 0
    what = '%s(cache=%r, %r)' % (case['op'], cache, case['kw'])
    steps = list(case['steps'])
    last_pass = max(i for i, st in enumerate(steps) if st[0] == 'PASS')
    for si_, step in enumerate(steps):
        if si_ == last_pass:
            for s_ in srcs:
                s_.disarm()         # faults stop before the last pass
        if step[0] == 'EDIT':
            _, si, kind, idx, row = step
            _apply_edit(tables[si], kind, idx, dec_table([row])[0])
            log.add('edit', si, kind, idx)
            continue
        if step[0] == 'ARM':
            srcs[step[1]].arm(step[2], passes=1,
                              kind=step[3] if len(step) > 3 else 'plain')
            log.add('arm', step[1], step[2])
            continue
        _, vi, upto = step
        npass += 1
        for i, t in enumerate(tables):
            snap = [list(r) for r in t]
            if snap not in versions[i]:
                versions[i].append(snap)
        before = [s.pulls('data') for s in srcs]
        it = None
        got = []
        try:
            it = iter(vs[vi])
            if upto is None:
                for r in it:
                    got.append(canon_row(r))
            else:
                for _ in range(upto):
                    try:
                        got.append(canon_row(next(it)))
                    except StopIteration:
                        break
                if hasattr(it, 'close'):
                    it.close()
        except INJECTED_SOURCE_FAILURES:
            # injected: this pass failed, it counts as an abandoned one
            probes['pass-failed-by-injection'] = 1
            log.add('pass-failed', vi)
            it = None
            continue
        except Exception as ex:
            # inapplicable from here on if the default call on the current
            # contents raises as well (e.g. an edit emptied the table and the
            # operator cannot handle that: C20's business, not C11's)
            try:
                _default(e, op, tables)
            except Exception:
                return npass, None
            raise _Bad('pass-raised', '%s pass %d raised %s: %s; the default '
                       'call on the current contents does not raise'
                       % (what, npass, type(ex).__name__, ex))
        finally:
            it = None
        pulled = [s.pulls('data') - b for s, b in zip(srcs, before)]
        log.add('pass', vi, upto, got, pulled)
        if upto is not None:
            probes['abandoned-pass'] = 1
            continue
        # ---- judge the full pass ---------------------------------------
        if not op.cache_clause:
            now = _default_now(e, op, tables, vi)
            if got != now:
                raise _Bad('stale-without-cache',
                           '%s pass %d: %r; the default call on the current '
                           'contents gives %r' % (what, npass, got, now))
            continue
        if not cache:
            probes['judged:cache-false'] = 1
            now = _default_now(e, op, tables, vi)
            if got != now:
                raise _Bad('stale-with-cache-false',
                           '%s pass %d does not reflect the current source '
                           'contents: %r; the default call on the current '
                           'contents gives %r' % (what, npass, got, now))
            if sum(pulled) == 0 and len(got) > 1:
                raise _Bad('no-reread-with-cache-false',
                           '%s pass %d delivered data rows but pulled no '
                           'data row from any source' % (what, npass))
        elif any_completed:
            probes['judged:after-completed-pass'] = 1
            if vi in completed:
                if got != completed[vi] and not (
                        sum(pulled) == 0 and _matches_some_version(
                            e, op, versions, tables, vi, got)):
                    # (an input the completed pass never had to read beyond
                    # its header is legitimately not cached: a pass that
                    # pulls no data and matches some seen combination of
                    # source versions is accepted)
                    raise _Bad('cached-pass-differs',
                               '%s pass %d: %r; the first completed pass '
                               'gave %r' % (what, npass, got, completed[vi]))
                if sum(pulled) != 0:
                    raise _Bad('reread-with-cache',
                               '%s pass %d pulled %r data rows from the '
                               'sources although a completed pass is cached'
                               % (what, npass, pulled))
            else:
                # the other output of a two-output operator: its inputs may
                # or may not have been cached by the completed pass
                ok = _matches_some_version(e, op, versions, tables, vi, got)
                if not ok:
                    raise _Bad('matches-no-version',
                               '%s pass %d over output %d: %r matches no '
                               'combination of source versions'
                               % (what, npass, vi, got))
                completed[vi] = got
        else:
            probes['judged:nondeterministic'] = 1
            ok = _matches_some_version(e, op, versions, tables, vi, got)
            if not ok:
                raise _Bad('matches-no-version',
                           '%s pass %d: %r matches the default call on no '
                           'combination of the source versions seen so far'
                           % (what, npass, got))
            completed[vi] = got
            any_completed = True
    return npass, None


def _matches_some_version(e, op, versions, tables, vi, got):
    choices = []
    for i, t in enumerate(tables):
        vs = list(versions[i])
        cur = [list(r) for r in t]
        if cur not in vs:
            vs.append(cur)
        choices.append(vs)
    for combo in itertools.product(*choices):
        try:
            if _default(e, op, list(combo))[vi] == got:
                return True
        except Exception:
            continue
    return False


def run_case(case):
    e = load_petl()
    log = Log()
    probes = {'op:' + case['op']: 1, 'machine:' + case['machine']: 1}
    sig = {'op': case['op'], 'machine': case['machine']}
    try:
        with devices.TempSandbox() as sb:
            try:
                if case['machine'] == 'knobs':
                    n, why = _run_knobs(e, case, log, sb, probes)
                else:
                    n, why = _run_history(e, case, log, sb, probes)
            finally:
                gc.collect()
    except _Bad as b:
        sig['vclass'] = b.vclass
        if case['machine'] == 'history':
            sig['cache'] = case['cache']
        return outcome('violation', vclass=b.vclass, msg=b.msg, sig=sig,
                       digest=log.hexdigest(), extra={'group': case['op']})
    if why is not None:
        return outcome('trivial', digest=log.hexdigest(), nontrivial=False,
                       extra={'group': case['op'], 'why': why})
    big = max(len(t) - 1 for t in case['tables']) >= 2
    if case['machine'] == 'knobs':
        st = '%s:knobs:%s' % (case['op'], ','.join(sorted(set(
            k for v in case['variants'] for k in v))))
    else:
        st = '%s:history:cache=%s:%s' % (case['op'], case['cache'], ''.join(
            s[0][0] + ('f' if s[0] == 'PASS' and s[2] is None else '')
            for s in case['steps']))
    return outcome('ok', digest=log.hexdigest(), probes=probes, steps=n,
                   nontrivial=big, states=[st], extra={'group': case['op']})


def warmup():
    load_petl()


def shrink_candidates(case):
    import copy
    for ti, t in enumerate(case['tables']):
        for d in ddmin_lists(t[1:]):
            c = copy.deepcopy(case)
            c['tables'][ti] = [t[0]] + d
            yield c
    if case['machine'] == 'knobs':
        for v in ddmin_lists(case['variants']):
            if v:
                c = copy.deepcopy(case)
                c['variants'] = v
                yield c
        for i, v in enumerate(case['variants']):
            if len(v) > 1:
                for k in v:
                    c = copy.deepcopy(case)
                    del c['variants'][i][k]
                    yield c
    else:
        for s in ddmin_lists(case['steps']):
            c = copy.deepcopy(case)
            c['steps'] = s
            yield c
        if case['kw']:
            c = copy.deepcopy(case)
            c['kw'] = {}
            yield c


def selfcheck(agg):
    if agg['truncated'] or agg['evaluations'] < 3000:
        return []
    errs = []
    want = ['op:' + n for n in OP_NAMES] + [
        'knob:buffersize', 'knob:cache', 'knob:tempdir', 'knob:cfg',
        'knob:presorted', 'judged:cache-false',
        'judged:after-completed-pass', 'judged:nondeterministic',
        'abandoned-pass', 'pass-failed-by-injection']
    for p in want:
        if not agg['probes'].get(p):
            errs.append('probe never hit: ' + p)
    return errs


def evidence_extra(tier):
    return {'operators': OP_NAMES}
