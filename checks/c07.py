"""C07 - hash joins and lookups agree with the sort-merge joins.

Claimed for the clauses that involve state and order: the build-side
dictionary kept across passes (cache on/off x pass number, interleaved and
abandoned passes), emission in the order of the streamed side, and agreement
of two implementations under those histories.  Oracles: (a) the corresponding
merge join (header + multiset of rows), (b) a nested-loop reference in
streamed-side order (exact sequence), (c) a dict model for the lookups."""
import gc

from sim import devices
from sim.canon import Log, dec_table, canon_rows, canon_row, canon_cell
from sim.core import outcome, ddmin_lists, draw_config
from sim.devices import (SimTable, SimSourceError, SOURCE_ERROR_KINDS,
                         INJECTED_SOURCE_FAILURES)
from sim.gen import gen_table, FIELDS
from sim.loader import load_petl
from sim.sched import Sched, Violation, gen_schedule

PROP = 'C07'
LEVEL = 'exploration'
RULE = ('case = machine join: (hashjoin | hashleftjoin | hashrightjoin | '
        'hashantijoin | hashlookupjoin; two tables with duplicate keys on '
        'either side, None keys, mixed-type hashable keys, compound keys, '
        'lkey != rkey, empty or header-only sides, ragged rows for the '
        'joins that square up; missing / lprefix / rprefix; cache on/off; a '
        'schedule of 2..3 iterators with abandoned and interleaved passes, '
        'then two fresh passes); every delivered row is compared with a '
        'nested-loop reference in streamed-side order after every step, and '
        'header + multiset with the corresponding sort-merge join. machine '
        'lookup: lookup/lookupone/dictlookup(one)/recordlookup(one) with '
        'key / value specs, strict flag, and a user dictionary reused '
        'across two calls, against a dict model. Non-trivial: both tables '
        'have a data row (join) or the table has one (lookup). Distinct: by '
        'digest of the whole case.')
STATES = ('join kind x cache flag x source-failure armed x build side '
          'edited, or lookup function x strict x dictionary reused')
COMPONENTS = {
    'real': ['petl hash joins, merge joins (as the second implementation), '
             'lookup functions'],
    'stub': ['SimTable sources'],
    'model': ['nested-loop join in streamed-side order; dict model of the '
              'lookups (this module)'],
}
ASSUMPTIONS = [
    'hashable key values only, no NaN (the property says so)',
    'the oracle is two-sided: a disagreement between hash join and merge '
    'join is reported under C07 whichever side is wrong',
]

JOINS = ['hashjoin', 'hashleftjoin', 'hashrightjoin', 'hashantijoin',
         'hashlookupjoin']
MERGE = {'hashjoin': 'join', 'hashleftjoin': 'leftjoin',
         'hashrightjoin': 'rightjoin', 'hashantijoin': 'antijoin',
         'hashlookupjoin': 'lookupjoin'}
LOOKUPS = ['lookup', 'lookupone', 'dictlookup', 'dictlookupone',
           'recordlookup', 'recordlookupone']


def budget(tier):
    if tier == 'quick':
        return {'cases': 40000, 'wall_cap_s': 240}
    return {'cases': 1500000, 'wall_cap_s': 1500}


def gen_case(rng, tier, g):
    case = _gen_case(rng, tier, g)
    case['fluent'] = rng.random() < 0.2
    # the host application's petl.config / logging set-up must not matter
    cfg = draw_config(rng, 0.12, exclude=('sort_buffersize', 'failonerror'))
    if cfg:
        case['config'] = cfg
    return case


def _gen_case(rng, tier, g):
    maxrows = 6 if tier == 'quick' else 9
    if rng.random() < 0.75:
        kind = JOINS[g % len(JOINS)]
        nfl, nfr = rng.randint(2, 4), rng.randint(2, 4)
        prof = rng.choice(['default', 'default', 'mixedkeys', 'nonone',
                           'int'])
        ragged = rng.random() < 0.2 and kind != 'hashantijoin'
        left = gen_table(rng, maxrows, nfields=nfl, ragged=ragged,
                         profile=prof)
        right = gen_table(rng, maxrows, nfields=nfr, ragged=ragged,
                          profile=prof)
        names = None
        if rng.random() < 0.2:
            # field names that contain each other (a key called 'ab' next to
            # fields 'a' and 'b'): name tests must not be substring tests
            names = ['ab', 'a', 'b', 'abc', 'bc']
            left = [names[:nfl]] + left[1:]
            right = [names[:nfr]] + right[1:]
        if rng.random() < 0.1:
            # field names that are not text (years, None) among the non-key
            # fields: the header of a join holds the field objects themselves
            if nfl >= 3:
                left[0][2] = rng.choice([2020, None, 2.5])
            if nfr >= 3:
                right[0][2] = rng.choice([2021, 2020, True])
        if not ragged and rng.random() < 0.3:
            # the fields of the right table in another order: a key named
            # the same sits at different positions in the two tables
            k = rng.randrange(1, nfr)
            right = [r_[k:] + r_[:k] for r_ in right]
        if rng.random() < 0.12:
            right = right[:1]
        if rng.random() < 0.08:
            left = left[:1]
        if rng.random() < 0.12:
            # a title line repeated among the data rows (a concatenated
            # export): a key VALUE that spells a field NAME is a value
            line = list(rng.choice([left[0], right[0]]))
            line = (line + list(left[0]))[:nfl]
            left.insert(rng.randint(1, len(left)), line)
        r = rng.random()
        if r < 0.5:
            keyspec = {'key': 'a'}
        elif r < 0.6:
            # a compound key spec with a single element
            keyspec = {'key': rng.choice([['a'], ('a',)])}
        elif r < 0.8:
            keyspec = {'key': ['a', 'b']}
        else:
            keyspec = {'lkey': 'a', 'rkey': FIELDS[rng.randrange(nfr)]}
        if names is not None:
            ren = dict(zip(FIELDS, names))

            def rn(k):
                if isinstance(k, (list, tuple)):
                    return type(k)(ren[x] for x in k)
                return ren[k]
            keyspec = dict((kk, rn(vv)) for kk, vv in keyspec.items())
        args = {}
        if kind != 'hashantijoin':
            # (join() takes no `missing`: the inner join never pads)
            if rng.random() < 0.3 and kind != 'hashjoin':
                args['missing'] = rng.choice(['M', 0, ''])
            if rng.random() < 0.25:
                args['lprefix'] = 'l_'
            if rng.random() < 0.25:
                args['rprefix'] = 'r_'
        cache = rng.random() < 0.6
        steps, shape = gen_schedule(rng, nviews=1, maxsteps=30,
                                    nrows_hint=max(len(left), 3))
        if rng.random() < 0.25:
            # one pass of one input fails part-way (e.g. while the build
            # side is being loaded); later passes must be complete
            side = rng.choice(['left', 'right'])
            n = len(left if side == 'left' else right) - 1
            steps.insert(rng.randint(0, max(0, len(steps) // 2)),
                         ['ARM', side, rng.choice([1, 2, max(1, n // 2), n,
                                                   n + 1]), 1,
                          rng.choice(SOURCE_ERROR_KINDS)])
        edit = None
        if rng.random() < 0.35:
            # the build side changes between two passes: cache=False (and
            # the joins without a cache argument) must reflect it, cache=True
            # must keep serving the lookup it has
            row = gen_table(rng, 1, minrows=1, nfields=nfr if kind !=
                            'hashrightjoin' else nfl, ragged=False,
                            profile='nonone')[1]
            edit = [rng.choice(['append', 'delete', 'replace', 'rotate']),
                    rng.randrange(8), row]
            if edit[0] == 'rotate' and cache and kind in (
                    'hashjoin', 'hashleftjoin', 'hashrightjoin'):
                # with a cached lookup, what a pass shows after the build
                # side changed its *layout* is not defined by anything (the
                # header is read afresh, the rows are not): rows only
                edit[0] = 'replace'
        pre_edit = None
        if rng.random() < 0.15:
            # the build side changes after the view was constructed and
            # before it is iterated for the first time: views are lazy, the
            # first pass sees the tables as they are then
            row = gen_table(rng, 1, minrows=1, nfields=nfr if kind !=
                            'hashrightjoin' else nfl, ragged=False,
                            profile='nonone')[1]
            pre_edit = [rng.choice(['append', 'delete', 'replace']),
                        rng.randrange(8), row]
        return {'prop': PROP, 'machine': 'join', 'kind': kind, 'left': left,
                'right': right, 'keyspec': keyspec, 'args': args,
                'cache': cache, 'steps': steps, 'shape': shape,
                'edit': edit, 'pre_edit': pre_edit}
    fn = LOOKUPS[g % len(LOOKUPS)]
    nf = 4
    table = gen_table(rng, maxrows, nfields=nf, ragged=False,
                      profile=rng.choice(['default', 'mixedkeys', 'nonone']))
    if fn.startswith(('dict', 'record')) and rng.random() < 0.15:
        # some rows are short (the key cells are still there); lookup() with
        # its all-fields default value does not take such rows
        for r_ in table[1:]:
            if rng.random() < 0.4:
                del r_[rng.randint(2, 3):]
    key = rng.choice(['a', 'a', ['a', 'b'], 'b', 0, ['a'], ('b',), 1,
                      [0, 1], (1,)])
    value = None
    if fn in ('lookup', 'lookupone'):
        # column d holds None and falsy values: "no value yet" must not be
        # confused with a stored None
        # (and index 0 is a field selection, not "nothing selected")
        value = rng.choice([None, None, 'b', 'd', 'd', ['b', 'a'],
                            ['d', 'c'], 1, 0, 0, [0], (0, 2)])
    return {'prop': PROP, 'machine': 'lookup', 'fn': fn, 'table': table,
            'table2': gen_table(rng, 4, nfields=nf, ragged=False),
            'key': key, 'value': value, 'strict': rng.random() < 0.5,
            'reuse_dict': rng.random() < 0.4,
            # what the user-supplied dictionary is: a dict, or a mapping
            # that hands out copies of its values (like a shelf without
            # writeback, which the lookup functions document support for)
            'dict_kind': rng.choice(['dict', 'dict', 'copying',
                                     'ordered'])}


# ---------------------------------------------------------------------------
# reference models

def _square(table, missing):
    hdr = table[0]
    n = len(hdr)
    out = [list(hdr)]
    for r in table[1:]:
        r = list(r)[:n]
        r = r + [missing] * (n - len(r))
        out.append(r)
    return out


def _indices(hdr, spec):
    spec = spec if isinstance(spec, (list, tuple)) else [spec]
    names = [str(h) for h in hdr]
    out = []
    for s in spec:
        if isinstance(s, int) and not isinstance(s, bool):
            if s >= len(hdr):
                raise IndexError(s)
            out.append(s)
        else:
            out.append(names.index(s))      # ValueError if absent
    return out


def _key(row, idx):
    if len(idx) == 1:
        return row[idx[0]]
    return tuple(row[i] for i in idx)


def join_model(kind, left, right, keyspec, args):
    """Rows in the order of the streamed side."""
    missing = args.get('missing')
    if kind == 'hashantijoin':
        L, R = left, right
    else:
        L, R = _square(left, missing), _square(right, missing)
    lhdr, rhdr = L[0], R[0]
    if 'key' in keyspec:
        lk = rk = keyspec['key']
    else:
        lk, rk = keyspec['lkey'], keyspec['rkey']
    lidx, ridx = _indices(lhdr, lk), _indices(rhdr, rk)
    if len(lidx) != len(ridx):
        raise ValueError('key length mismatch')
    rv = [i for i in range(len(rhdr)) if i not in ridx]
    if kind == 'hashantijoin':
        hdr = list(lhdr)
        rkeys = [_key(r, ridx) for r in R[1:]]
        rows = [tuple(l) for l in L[1:]
                if not any(_eq(_key(l, lidx), k) for k in rkeys)]
        return [tuple(hdr)] + rows
    lp, rp = args.get('lprefix'), args.get('rprefix')
    hdr = [(lp + str(f)) if lp is not None else f for f in lhdr] + \
        [(rp + str(rhdr[i])) if rp is not None else rhdr[i] for i in rv]
    rows = []
    if kind in ('hashjoin', 'hashleftjoin', 'hashlookupjoin'):
        for l in L[1:]:
            k = _key(l, lidx)
            partners = [r for r in R[1:] if _eq(_key(r, ridx), k)]
            if kind == 'hashlookupjoin':
                partners = partners[:1]
            if partners:
                for r in partners:
                    rows.append(tuple(list(l) + [r[i] for i in rv]))
            elif kind != 'hashjoin':
                rows.append(tuple(list(l) + [missing] * len(rv)))
    else:  # hashrightjoin streams the right side
        for r in R[1:]:
            k = _key(r, ridx)
            partners = [l for l in L[1:] if _eq(_key(l, lidx), k)]
            if partners:
                for l in partners:
                    rows.append(tuple(list(l) + [r[i] for i in rv]))
            else:
                out = [missing] * len(lhdr)
                for li, ri in zip(lidx, ridx):
                    out[li] = r[ri]
                rows.append(tuple(out + [r[i] for i in rv]))
    return [tuple(hdr)] + rows


def _eq(a, b):
    """Key equality as a dictionary sees it (== plus same hash; the value
    domain has no objects where these differ)."""
    try:
        return bool(a == b)
    except Exception:
        return False


class _Bad(Exception):
    def __init__(self, vclass, msg):
        Exception.__init__(self, msg)
        self.vclass = vclass
        self.msg = msg


class _Inapplicable(Exception):
    pass


def _edit_rows(data, edit):
    kind_, idx, row = edit
    row = dec_table([row])[0]
    if kind_ == 'rotate':
        # the fields of the table change places (header included)
        n = len(data[0]) if data else 0
        if n > 1 and all(len(r) == n for r in data):
            k = 1 + idx % (n - 1)
            for i, r in enumerate(data):
                data[i] = list(r[k:]) + list(r[:k])
        return
    if kind_ == 'append' or len(data) <= 1:
        data.append(list(row))
    elif kind_ == 'delete':
        del data[1 + idx % (len(data) - 1)]
    else:
        data[1 + idx % (len(data) - 1)] = list(row)


def _run_join(e, case, log, probes):
    kind = case['kind']
    left, right = dec_table(case['left']), dec_table(case['right'])
    left0 = [list(r) for r in left]
    right0 = [list(r) for r in right]
    if case.get('pre_edit'):
        # (the model is computed on the tables as they are when the first
        # pass starts; the view is constructed on the tables as generated)
        _edit_rows(right if kind != 'hashrightjoin' else left,
                   case['pre_edit'])
        probes['build-side-edit-before-first-pass'] = 1
    try:
        want = join_model(kind, left, right, case['keyspec'], case['args'])
    except (ValueError, IndexError) as ex:
        raise _Inapplicable(str(ex))
    want_c = canon_rows(want)
    log.add('model', want_c)
    kw = dict(case['keyspec'])
    kw.update(case['args'])
    hkw = dict(kw)
    if kind in ('hashjoin', 'hashleftjoin', 'hashrightjoin'):
        hkw['cache'] = case['cache']
    what = '%s(%r)' % (kind, hkw)
    ls = SimTable(left0, mode='alias', name='left')
    rs = SimTable(right0, mode='alias', name='right')
    if case.get('fluent'):
        # method-call style: table.hashjoin(other, ...)
        view = getattr(e.wrap(ls), kind)(rs, **hkw)
        probes['method-call-style'] = 1
    else:
        view = getattr(e, kind)(ls, rs, **hkw)
    if case.get('pre_edit'):
        _edit_rows((rs if kind != 'hashrightjoin' else ls).rows,
                   case['pre_edit'])
    sch = Sched([view], [want_c], log=log,
                expect_fault=lambda t, ex: isinstance(
                    ex, INJECTED_SOURCE_FAILURES))
    try:
        for op in case['steps']:
            if op[0] == 'ARM':
                (ls if op[1] == 'left' else rs).arm(
                    op[2], passes=op[3],
                    kind=op[4] if len(op) > 4 else 'plain')
                log.add('step', op)
                probes['source-failure-armed'] = 1
                continue
            sch.step(op)
        if sch.probes.get('iter-failed-by-injection'):
            # the build side is loaded inside iter(): the failure surfaces
            # from ITER itself
            probes['failure-during-build'] = 1
        ls.disarm()
        rs.disarm()
        build = rs if kind != 'hashrightjoin' else ls
        before = build.pulls('data')
        sch.fresh(0)
        sch.fresh(0, label='fresh-again')
        if case['cache'] and kind in ('hashjoin', 'hashleftjoin',
                                      'hashrightjoin') and \
                build.pulls('data') != before:
            probes['build-side-reread-despite-cache'] = 1
        if case['cache']:
            probes['second-pass-from-cached-lookup'] = 1
        if case.get('edit'):
            _edit_rows(build.rows, case['edit'])
            cached = case['cache'] and kind in ('hashjoin', 'hashleftjoin',
                                                'hashrightjoin')
            l2 = [list(r) for r in ls.rows]
            r2 = [list(r) for r in rs.rows]
            if cached:
                # streamed side current, build side as it was when loaded
                if kind == 'hashrightjoin':
                    l2 = [list(r) for r in left]
                else:
                    r2 = [list(r) for r in right]
            try:
                want2 = canon_rows(join_model(kind, l2, r2, case['keyspec'],
                                              case['args']))
            except (ValueError, IndexError):
                want2 = None
            if want2 is not None:
                sch.expected[0] = want2
                before = build.pulls('data')
                sch.fresh(0, label='pass-after-edit')
                if cached and build.pulls('data') != before:
                    raise _Bad('cached-lookup-reloaded',
                               '%s: with cache=True a later pass pulled %d '
                               'data rows from the build side again'
                               % (what, build.pulls('data') - before))
                probes['pass-after-build-side-edit:cache=%s' % cached] = 1
    except Violation as v:
        raise _Bad('hash-vs-model-' + v.vclass.replace('fresh-pass-', ''),
                   what + ': ' + v.msg)
    finally:
        overlap = sch.overlap
        nsteps = sch.nsteps
        sch.tasks.clear()
        sch.views = []
    # ---- the sort-merge implementation --------------------------------
    mname = MERGE[kind]
    try:
        mrows = []
        for r in iter(getattr(e, mname)([list(r) for r in left],
                                        [list(r) for r in right], **kw)):
            mrows.append(canon_row(r))
    except Exception as ex:
        raise _Bad('merge-join-raised',
                   '%s(%r) raised %s: %s on an input for which %s returns %r'
                   % (mname, kw, type(ex).__name__, ex, kind, want))
    if mrows[:1] != want_c[:1]:
        raise _Bad('header-differs', '%s(%r) header %r, %s header %r'
                   % (mname, kw, mrows[:1], kind, want_c[:1]))
    if sorted(mrows[1:], key=repr) != sorted(want_c[1:], key=repr):
        raise _Bad('multiset-differs',
                   '%s(%r) returns %r; %s returns %r (left %r, right %r)'
                   % (mname, kw, mrows[1:], kind, want_c[1:], left, right))
    probes['join:' + kind] = 1
    if any(r[i] is None for r in left[1:] for i in range(min(1, len(r)))):
        probes['none-key-on-left'] = 1
    if len(right) == 1:
        probes['empty-build-side'] = 1
    return overlap, nsteps, len(left) > 1 and len(right) > 1


def _lookup_model(fn, table, key, value, strict, start=None):
    hdr = table[0]
    idx = _indices(hdr, key)
    d = dict(start or {})
    dup = None
    for r in table[1:]:
        k = _key(r, idx)
        if fn in ('lookup', 'lookupone'):
            if value is None:
                v = tuple(r[:len(hdr)])
            else:
                vi = _indices(hdr, value)
                v = _key(r, vi)
        elif fn.startswith('dict'):
            # (a row that is too short has None for the fields it lacks,
            # as dicts() and the squared-up table have)
            v = dict((str(h), r[i] if i < len(r) else None)
                     for i, h in enumerate(hdr))
        else:
            v = tuple(r)
        if fn.endswith('one'):
            if k in d:
                if strict:
                    return d, k
            else:
                d[k] = v
        else:
            d.setdefault(k, [])
            d[k] = d[k] + [v]
    return d, dup


class _CopyingDict(dict):
    """__getitem__ returns a copy of a stored list, as shelve does without
    writeback: appending to what it returns changes nothing."""

    def __getitem__(self, k):
        v = dict.__getitem__(self, k)
        return list(v) if isinstance(v, list) else v


def _canon_lookup(d):
    out = []
    for k, v in d.items():
        out.append((canon_cell(k), canon_cell(v)))
    return sorted(out, key=repr), [canon_cell(k) for k in d]


def _run_lookup(e, case, log, probes):
    fn = case['fn']
    table = dec_table(case['table'])
    table2 = dec_table(case['table2'])
    try:
        want, dupkey = _lookup_model(fn, table, case['key'], case['value'],
                                     case['strict'])
    except (ValueError, IndexError) as ex:
        raise _Inapplicable(str(ex))
    kw = {}
    if fn in ('lookup', 'lookupone') and case['value'] is not None:
        kw['value'] = case['value']
    if fn.endswith('one'):
        kw['strict'] = case['strict']
    what = '%s(key=%r, %r)' % (fn, case['key'], kw)
    f = getattr(e, fn)
    if case.get('fluent'):
        def f(table, *a, **k):
            return getattr(e.wrap(table), fn)(*a, **k)
    src = SimTable([list(r) for r in table], mode='alias')
    userdict = None
    if case['reuse_dict']:
        kind_ = case.get('dict_kind', 'dict')
        if kind_ == 'copying':
            userdict = _CopyingDict()
        elif kind_ == 'ordered':
            import collections
            userdict = collections.OrderedDict()
        else:
            userdict = {}
    try:
        if userdict is not None:
            got = f(src, case['key'], dictionary=userdict, **kw)
        else:
            got = f(src, case['key'], **kw)
        raised = None
    except e.errors.DuplicateKeyError as ex:
        raised = ex
        got = None
    except Exception as ex:
        raise _Bad('lookup-raised', '%s raised %s: %s'
                   % (what, type(ex).__name__, ex))
    if dupkey is not None or (fn.endswith('one') and case['strict']
                              and _has_dup(table, case['key'])):
        probes['strict-duplicate'] = 1
        if raised is None:
            raise _Bad('duplicate-not-reported',
                       '%s did not raise DuplicateKeyError although a key '
                       'repeats' % what)
        return True
    if raised is not None:
        raise _Bad('spurious-duplicate-error',
                   '%s raised DuplicateKeyError(%r) but no key repeats'
                   % (what, getattr(raised, 'key', None)))
    # records: compare as tuples
    g = dict((k, ([tuple(x) for x in v] if fn == 'recordlookup'
                  else tuple(v) if fn == 'recordlookupone' else v))
             for k, v in dict.items(got))
    gc_, gorder = _canon_lookup(g)
    wc_, worder = _canon_lookup(want)
    log.add('lookup', gc_)
    if gc_ != wc_:
        raise _Bad('lookup-differs', '%s returns %r, expected %r'
                   % (what, g, want))
    if gorder != worder:
        raise _Bad('lookup-key-order-differs',
                   '%s keys in order %r, table order is %r'
                   % (what, gorder, worder))
    if userdict is not None:
        if got is not userdict:
            raise _Bad('user-dictionary-not-used',
                       '%s did not load the dictionary it was given' % what)
        # second load into the same dictionary: accumulates
        try:
            want2, dup2 = _lookup_model(fn, table2, case['key'],
                                        case['value'], False, start=want)
            kw2 = dict(kw)
            if 'strict' in kw2:
                kw2['strict'] = False
            f(SimTable([list(r) for r in table2], mode='alias'),
              case['key'], dictionary=userdict, **kw2)
        except (ValueError, IndexError):
            return len(table) > 1
        g2 = dict((k, ([tuple(x) for x in v] if fn == 'recordlookup'
                       else tuple(v) if fn == 'recordlookupone' else v))
                  for k, v in dict.items(userdict))
        if _canon_lookup(g2) != _canon_lookup(want2):
            raise _Bad('lookup-reuse-differs',
                       '%s loading a second table into the same dictionary '
                       'gives %r, expected %r' % (what, g2, want2))
        probes['dictionary-reused'] = 1
    probes['lookup:' + fn] = 1
    return len(table) > 1


def _has_dup(table, key):
    idx = _indices(table[0], key)
    seen = []
    for r in table[1:]:
        k = _key(r, idx)
        if any(_eq(k, s) and _samehash(k, s) for s in seen):
            return True
        seen.append(k)
    return False


def _samehash(a, b):
    try:
        return hash(a) == hash(b)
    except TypeError:
        return False


def run_case(case):
    e = load_petl()
    import petl.errors  # noqa: F401
    log = Log()
    probes = {'machine:' + case['machine']: 1}
    steps = 0
    try:
        if case['machine'] == 'join':
            overlap, steps, big = _run_join(e, case, log, probes)
            nontrivial = big
        else:
            nontrivial = _run_lookup(e, case, log, probes)
    except _Inapplicable as ex:
        return outcome('trivial', digest=log.hexdigest(), nontrivial=False,
                       extra={'why': str(ex)[:40]})
    except _Bad as b:
        sig = {'machine': case['machine'], 'vclass': b.vclass}
        if case['machine'] == 'join':
            sig['kind'] = case['kind']
            left, right = dec_table(case['left']), dec_table(case['right'])
            sig['right_empty'] = len(right) <= 1
            sig['left_empty'] = len(left) <= 1
        else:
            sig['fn'] = case['fn']
        return outcome('violation', vclass=b.vclass, msg=b.msg, sig=sig,
                       digest=log.hexdigest())
    finally:
        gc.collect()
    if case['machine'] == 'join':
        st = 'join:%s:cache=%s:armed=%s:edit=%s' % (
            case['kind'], case['cache'],
            any(op[0] == 'ARM' for op in case['steps']),
            bool(case.get('edit')))
    else:
        st = 'lookup:%s:strict=%s:reuse=%s' % (case['fn'], case['strict'],
                                               case['reuse_dict'])
    return outcome('ok', digest=log.hexdigest(), probes=probes, steps=steps,
                   nontrivial=nontrivial, states=[st],
                   extra={'group': case.get('kind') or case.get('fn')})


def warmup():
    load_petl()


def shrink_candidates(case):
    import copy
    if case['machine'] == 'join':
        for side in ('left', 'right'):
            t = case[side]
            for d in ddmin_lists(t[1:]):
                c = copy.deepcopy(case)
                c[side] = [t[0]] + d
                yield c
        for s in ddmin_lists(case['steps']):
            c = copy.deepcopy(case)
            c['steps'] = s
            yield c
        for k in list(case['args']):
            c = copy.deepcopy(case)
            del c['args'][k]
            yield c
        for k in ('edit', 'pre_edit'):
            if case.get(k):
                c = copy.deepcopy(case)
                c[k] = None
                yield c
        for side in ('left', 'right'):
            t = case[side]
            for ri in range(1, len(t)):
                for ci in range(len(t[ri])):
                    if t[ri][ci] not in (0, None):
                        c = copy.deepcopy(case)
                        c[side][ri][ci] = 0
                        yield c
    else:
        t = case['table']
        for d in ddmin_lists(t[1:]):
            c = copy.deepcopy(case)
            c['table'] = [t[0]] + d
            yield c
        if case['reuse_dict']:
            c = copy.deepcopy(case)
            c['reuse_dict'] = False
            yield c


def selfcheck(agg):
    if agg['truncated'] or agg['evaluations'] < 5000:
        return []
    errs = []
    for p in ['join:' + k for k in JOINS] + ['lookup:' + f for f in LOOKUPS] \
            + ['strict-duplicate', 'dictionary-reused', 'empty-build-side',
               'none-key-on-left', 'second-pass-from-cached-lookup',
               'pass-after-build-side-edit:cache=True',
               'pass-after-build-side-edit:cache=False',
               'failure-during-build']:
        if not agg['probes'].get(p):
            errs.append('probe never hit: ' + p)
    return errs
