"""C15 - writing a table and reading it back returns the same table.

History machine of to* / append* / from* calls against a content model, on a
simulated byte store (writes visible on flush/close, fragmented read1, handle
accounting), on the real gzip/bz2 codecs layered over it, on real files
(plain, .gz, .bz2: extension-based source resolution) and on MemorySource."""
import bz2
import csv
import gc
import gzip
import io
import itertools
import json
import os

from sim import devices
from sim.canon import Log, dec_table, enc, canon_rows, canon_row
from sim.core import outcome, ddmin_lists, draw_config
from sim.devices import (SimStore, SimCompressedSource, PipeFault,
                         SimSourceError, SimDiskFull)
from sim.gen import FIELDS
from sim.loader import load_petl

PROP = 'C15'
LEVEL = 'exploration'
RULE = ('case = (format in csv/tsv/pickle/json/jsonlines/jsonarrays/text; '
        'target kind in simulated store / gzip or bz2 over the simulated '
        'store / real path / real .gz / real .bz2 / MemorySource; arguments: '
        'encoding (+errors), csv delimiter/quotechar/quoting, pickle '
        'protocol, write_header / header flags, json prefix/suffix; a '
        'history of 1..4 TO/APPEND operations with tables of text cells rich '
        'in delimiter, quote, CR, LF, NUL, non-ASCII and astral characters, '
        'typed cells, ragged and empty rows, header-only tables; read '
        'fragmentation pattern). After every write the target is read back '
        'through a fresh handle and compared with the content model (csv: '
        'what the stdlib csv module returns for the same rows and dialect on '
        'an in-memory text buffer, and the identity when all cells are text; '
        'pickle: exact; json: JSON types); after TO+APPEND the decompressed '
        'bytes equal those of TO(concatenation); no handle stays open. '
        'Non-trivial: the reference did not raise and some table has a data '
        'row. Distinct: by digest of the whole case.')
STATES = 'format x target kind x encoding x sequence of operations'
COMPONENTS = {
    'real': ['petl to*/append*/from* for csv, tsv, pickle, json, text; '
             'TextIOWrapper, codecs, csv, pickle, json, gzip, bz2; petl '
             'FileSource/GzipSource/BZ2Source/MemorySource on real files in '
             'a private directory'],
    'stub': ['SimStore/SimFile byte store', 'SimCompressedSource (same calls '
             'as GzipSource/BZ2Source, on a SimFile)'],
    'model': ['content model: list of records per target; stdlib csv on an '
              'in-memory text buffer as the dialect reference'],
}
ASSUMPTIONS = [
    'the stdlib csv module on an in-memory text buffer is the reference for '
    'csv dialect behaviour; a case where it raises is inapplicable',
    'line terminator and doublequote stay at their defaults (the property '
    'excludes other values)',
    'write errors (ENOSPC) are not injected: the property says nothing '
    'about them',
]

TEXTS = ['x', 'y z', 'a,b', 'q"uote', "s'q", 'l1\nl2', 'cr\rx', 'crlf\r\ny',
         'é', '€', '\U0001F600', '', ' ', '\t', 'a|b', 'a;b', '"', '""', ',',
         '\n', 'nul\x00x', 'tail\r', '﻿', '1', '2.5', 'None', "'",
         # the other characters str.splitlines() breaks at
         'nel\x85x', 'ls\u2028x', 'ps\u2029x', 'vt\x0bx', 'ff\x0cx',
         'fs\x1cx', 'rs\x1ey']
TYPED = [None, 0, 1, -3, 2.5, True, False]
ENCODINGS = [None, None, 'utf-8', 'utf-8-sig', 'utf-16', 'utf-16-le',
             'utf-16-be', 'utf-32', 'latin-1', 'cp1252', 'ascii']
BOM_ENCODINGS = ('utf-8-sig', 'utf-16', 'utf-32')
TARGETS = ['sim', 'sim', 'sim-gz', 'sim-bz2', 'path', 'path-gz', 'path-bz2',
           'memory']
FORMATS = ['csv', 'csv', 'csv', 'tsv', 'pickle', 'json', 'jsonlines',
           'jsonarrays', 'text']


TYPED_FIELDS = ['a', 2019, 2020, None, 2.5, True, (1, 'a'), b'b', 'é', '',
                ' pad ']


def budget(tier):
    if tier == 'quick':
        return {'cases': 30000, 'wall_cap_s': 240}
    return {'cases': 1500000, 'wall_cap_s': 1500}


def _table(rng, fmt, maxrows, nf=None, hdr=None):
    nf = nf or rng.randint(1, 4)
    if hdr is not None and not hdr:
        # a table whose header row has no fields (a csv file that starts
        # with a blank line): rows of zero to two cells under it
        return [[]] + [[enc(rng.choice(['x', '', 'é', '1']))
                        for _ in range(rng.randint(0, 2))]
                       for _ in range(rng.randint(0, maxrows))]
    hdr = hdr or FIELDS[:nf]
    n = rng.randint(0, maxrows)
    rows = [list(hdr)]
    ragged = rng.random() < 0.2
    kind = rng.choice(['text', 'text', 'mixed'])
    for _ in range(n):
        if fmt in ('json', 'jsonlines', 'jsonarrays'):
            pool = ['x', 'é', '\U0001F600', 'l1\nl2', '', None, 1, 2.5, True,
                    [1, 'a'], {'k': 1}, 'q"uote', 'nel\x85x', 'ls\u2028x',
                    'ps\u2029x', 'cr\rx', 'ff\x0cx',
                    # an unpaired surrogate (os.fsdecode of a non-UTF-8 file
                    # name): JSON's ASCII escaping carries it
                    'lone\udce9x']
        elif fmt == 'pickle':
            pool = TEXTS + TYPED + [b'by\x00tes', (1, 'a'), [2, None]]
        elif kind == 'text':
            pool = TEXTS
        else:
            pool = TEXTS + TYPED
        row = [rng.choice(pool) for _ in hdr]
        if ragged:
            r = rng.random()
            if r < 0.25:
                row = row[:rng.randint(0, len(row))]
            elif r < 0.35:
                row = row + ['extra']
        rows.append(row)
    if n and rng.random() < 0.06:
        # the header line again as a data row (a file that was given its
        # header twice): a row like any other
        rows[rng.choice([1, 1, n])] = list(hdr)
    return [[enc(c) for c in r] for r in rows]


def gen_case(rng, tier, g):
    fmt = rng.choice(FORMATS)
    target = rng.choice(TARGETS)
    maxrows = 5 if tier == 'quick' else 8
    args = {}
    nf = rng.randint(1, 4)
    if fmt in ('csv', 'tsv', 'text'):
        args['encoding'] = rng.choice(ENCODINGS)
        if rng.random() < 0.2:
            args['errors'] = rng.choice(['replace', 'ignore',
                                         'backslashreplace'])
    if fmt in ('csv', 'tsv'):
        if fmt == 'csv' and rng.random() < 0.45:
            args['delimiter'] = rng.choice([';', '|', ' ', '\t', ':'])
        if rng.random() < 0.3:
            # (a quote character equal to the delimiter is not a dialect)
            args['quotechar'] = rng.choice(
                [q for q in ["'", '|', '"', '`']
                 if q != args.get('delimiter')])
        if rng.random() < 0.5:
            args['quoting'] = rng.choice([csv.QUOTE_MINIMAL, csv.QUOTE_ALL,
                                          csv.QUOTE_NONNUMERIC,
                                          csv.QUOTE_NONE])
    if fmt == 'pickle':
        args['protocol'] = rng.choice([-1, 0, 1, 2, 3, 4, 5])
    if fmt == 'text':
        args['template'] = rng.choice(['{a}\n', '{a}|{a}\n', '<{a}>'])
    if fmt in ('json', 'jsonarrays') and rng.random() < 0.2:
        args['prefix'] = 'cb('
        args['suffix'] = ');'
    if fmt == 'jsonarrays' and rng.random() < 0.4:
        args['output_header'] = rng.random() < 0.7
    if fmt in ('json', 'jsonlines', 'jsonarrays') and rng.random() < 0.3:
        # JSONEncoder arguments travel through **kwargs
        # (not sort_keys: field order is part of the table; no indent in
        # the lines form, where a record is one line)
        args.update(rng.choice(
            ([] if fmt == 'jsonlines' else [{'indent': 1}]) +
            [{'check_circular': False}, {'ensure_ascii': False},
             {'separators': [',', ':']}]))
    can_append = fmt in ('csv', 'tsv', 'pickle', 'text')
    hist = []
    nops = rng.choice([1, 1, 2, 3, 4]) if can_append else rng.choice([1, 1, 2])
    hdr = FIELDS[:nf]
    if fmt in ('csv', 'tsv') and rng.random() < 0.03:
        hdr = []
    typed_hdr = fmt == 'pickle' and rng.random() < 0.3
    if typed_hdr:
        # field names are whatever objects the header row holds: years,
        # None, tuples; pickle carries them as they are
        hdr = rng.sample(TYPED_FIELDS, nf)
    for i in range(nops):
        if i == 0 or not can_append or rng.random() < 0.25:
            op = 'TO'
        else:
            op = 'APPEND'
        wh = None
        if fmt in ('csv', 'tsv', 'pickle') and rng.random() < 0.3:
            wh = rng.random() < 0.5
        if op == 'TO' and i > 0 and rng.random() < 0.5:
            # the target is rewritten with another set of fields
            nf = rng.randint(1, 4)
            hdr = rng.sample(TYPED_FIELDS if typed_hdr else FIELDS, nf)
        t = _table(rng, fmt, maxrows, nf=nf, hdr=hdr)
        hist.append([op, t, wh])
    case = _case(rng, fmt, target, args, hist)
    if rng.random() < 0.025:
        # one of the tables is long (row j: a row of the drawn table with
        # 'r<j>' as its first cell): whatever a writer or reader does once
        # per so many rows happens
        case['inflate'] = [rng.randrange(len(hist)),
                           rng.choice([1000, 1001, 1024, 1500, 2049, 3000])]
    return case


def _inflated(case, opi, table):
    inf = case.get('inflate')
    if not inf or inf[0] != opi:
        return table
    base = [list(r) for r in table[1:]] or [['x'] * len(table[0])]
    out = [list(r) for r in table]
    for j in range(inf[1]):
        row = list(base[j % len(base)])
        if row:
            row[0] = 'r%d' % j
        out.append(row)
    return out


def _case(rng, fmt, target, args, hist):
    return {'prop': PROP, 'fmt': fmt, 'target': target, 'args': args,
            'config': draw_config(rng, 0.1),
            'history': hist,
            # (read back with header=: other names, or the names the table
            # was written under)
            'read_header': rng.choice([True, 'own'])
            if rng.random() < 0.25 and fmt in ('csv', 'tsv') else False,
            # a write attempt whose row source fails part-way, made before a
            # TO operation; the caller keeps the exception until after the
            # next successful write
            'failed_write_before': [i for i, h in enumerate(hist)
                                    if h[0] == 'TO' and rng.random() < 0.2],
            'failed_at': rng.randint(0, 6),
            'fluent': rng.random() < 0.15,
            'decoy': rng.choice([
                {'delimiter': '|', 'quoting': csv.QUOTE_ALL},
                {'quotechar': "'", 'encoding': 'utf-16'},
                {'delimiter': ';', 'quoting': csv.QUOTE_NONNUMERIC,
                 'lineterminator': '\n'}])
            if fmt in ('csv', 'tsv') and rng.random() < 0.15 else None,
            'same_object': rng.random() < 0.25,
            'relname': rng.choice(['http_status', 'https-certs', 'ftp_list',
                                   'smb_share', 's3_dump', 'file_x', 'C_'])
            if target.startswith('path') and rng.random() < 0.3 else None,
            'failed_mode': rng.choice(['source', 'source', 'sink']),
            'srcobj': rng.choice([None, None, 'object', 'bgz'])
            if target.startswith('path') else None,
            'frag': [rng.choice([1, 2, 3, 5, 7, 64, 8192])
                     for _ in range(rng.randint(1, 5))]
            if rng.random() < 0.7 else None}


# ---------------------------------------------------------------------------

class _Bad(Exception):
    def __init__(self, vclass, msg):
        Exception.__init__(self, msg)
        self.vclass = vclass
        self.msg = msg


class _Inapplicable(Exception):
    pass


class Target(object):
    """One named target of a given kind, plus a scratch twin."""

    def __init__(self, e, kind, fmt, store, sbpath, name, srcobj=None):
        self.e = e
        self.kind = kind
        self.store = store
        ext = {'csv': '.csv', 'tsv': '.tsv', 'pickle': '.p', 'json': '.json',
               'jsonlines': '.jsonl', 'jsonarrays': '.json',
               'text': '.txt'}[fmt]
        self.name = name + ext
        self.mem = None
        if kind == 'sim':
            self.w = store.source(self.name)
        elif kind in ('sim-gz', 'sim-bz2'):
            self.w = SimCompressedSource(store.source(self.name),
                                         'gz' if kind == 'sim-gz' else 'bz2')
        elif kind == 'memory':
            self.mem = e.MemorySource()
            self.w = self.mem
        else:
            suffix = {'path': '', 'path-gz': '.gz', 'path-bz2': '.bz2'}[kind]
            if srcobj == 'bgz' and kind == 'path-gz':
                suffix = '.bgz'         # the other registered gzip extension
            self.path = os.path.join(sbpath, self.name + suffix)
            self.w = self.path
            if srcobj == 'object':
                # an explicit source object instead of a file name resolved
                # by its extension
                import petl.io.sources as psrc
                self.w = {'path': psrc.FileSource, 'path-gz': psrc.GzipSource,
                          'path-bz2': psrc.BZ2Source}[kind](self.path)

    def reader(self):
        if self.kind == 'memory':
            data = self.mem.getvalue()
            return self.e.MemorySource(data if data is not None else b'')
        return self.w

    def raw(self):
        """Decompressed bytes currently stored."""
        if self.kind == 'sim':
            return self.store.files.get(self.name, b'')
        if self.kind == 'sim-gz':
            return gzip.decompress(self.store.files.get(self.name, b''))
        if self.kind == 'sim-bz2':
            return bz2.decompress(self.store.files.get(self.name, b''))
        if self.kind == 'memory':
            return self.mem.getvalue() or b''
        with open(self.path, 'rb') as f:
            data = f.read()
        if self.kind == 'path-gz':
            return gzip.decompress(data)
        if self.kind == 'path-bz2':
            return bz2.decompress(data)
        return data


class _cwd(object):
    def __init__(self, path):
        self.path = path
        self.saved = None

    def __enter__(self):
        if self.path:
            self.saved = os.getcwd()
            os.chdir(self.path)
        return self

    def __exit__(self, *a):
        if self.saved:
            os.chdir(self.saved)
        return False


def _json_reference_ok(table, args):
    """Does the standard encoder, given the same keyword arguments, turn
    these cells into text that UTF-8 can carry?"""
    kw = dict((k, v) for k, v in args.items()
              if k in ('indent', 'check_circular', 'ensure_ascii',
                       'separators'))
    if 'separators' in kw:
        kw['separators'] = tuple(kw['separators'])
    try:
        json.dumps([list(r) for r in table], **kw).encode('utf-8')
        return True
    except Exception:
        return False


def _csvargs(fmt, args):
    a = dict((k, v) for k, v in args.items()
             if k in ('delimiter', 'quotechar', 'quoting'))
    a['dialect'] = 'excel' if fmt == 'csv' else 'excel-tab'
    return a


def _csv_reference(records, fmt, args):
    """What the stdlib csv module gives back for these records and dialect
    on an in-memory text buffer (after the lossy encode/decode the drawn
    `errors` policy implies)."""
    a = _csvargs(fmt, args)
    buf = io.StringIO(newline='')
    try:
        w = csv.writer(buf, **a)
        for r in records:
            w.writerow(r)
    except (csv.Error, TypeError, ValueError) as ex:
        raise _Inapplicable('csv writer: %s' % ex)
    text = buf.getvalue()
    encoding = args.get('encoding') or 'utf-8'
    errors = args.get('errors', 'strict')
    try:
        data = text.encode(encoding, errors)
        text2 = data.decode(encoding, errors)
    except (UnicodeError, LookupError) as ex:
        raise _Inapplicable('encoding: %s' % ex)
    try:
        return [tuple(r) for r in csv.reader(io.StringIO(text2, newline=''),
                                             **a)]
    except (csv.Error, ValueError) as ex:
        raise _Inapplicable('csv reader: %s' % ex)


def _identity_applies(records, args):
    """All cells text, classic quoting, strict encoding: the round trip must
    be the identity (str-rendered cells), apart from the two documented csv
    quirks (an empty row comes back as an empty row; see csv docs)."""
    if args.get('errors', 'strict') != 'strict':
        return False
    if args.get('quoting') in (csv.QUOTE_NONNUMERIC, csv.QUOTE_NONE):
        return False
    for r in records:
        if not r:
            return False
        if len(r) == 1 and r[0] in ('', None):
            return False
        for c in r:
            if not isinstance(c, str) and c is not None:
                return False
            if isinstance(c, str) and ('\x00' in c or c == '﻿'
                                       or '\r' in c or '\n' in c):
                # NUL / BOM-only / embedded line breaks: legal, checked
                # against the stdlib reference only
                return False
    return True


def _raw(tgt, what):
    try:
        return tgt.raw()
    except Exception as ex:
        raise _Bad('target-corrupt', '%s: the target cannot be read / '
                   'decompressed: %s: %s' % (what, type(ex).__name__, ex))


def _jsonify(v):
    return json.loads(json.dumps(v))


def _json_header_read(e, rd, table, lines):
    """Reading back with an explicit header (fields reordered, one dropped,
    one unknown) and a missing value."""
    hdr = list(table[0])
    sel = list(reversed(hdr))[:max(1, len(hdr) - 1)] + ['nosuchfield']
    got = [r for r in iter(e.fromjson(rd, header=sel, missing='M',
                                      lines=lines))]
    want = [tuple(sel)]
    for r in table[1:]:
        d = dict((h, _jsonify(r[i]) if i < len(r) else None)
                 for i, h in enumerate(hdr))
        want.append(tuple(d.get(f, 'M') for f in sel))
    return got, want


_FLUENT = [False]


def _write(e, fmt, op, table, tgt, args, wh):
    if _FLUENT[0]:
        # table.tocsv(...) instead of petl.tocsv(table, ...)
        from sim.loader import Fluent
        e = Fluent(e)
    a = dict(args)
    src = tgt
    if fmt in ('csv', 'tsv'):
        if wh is not None:
            a['write_header'] = wh
        fn = {('csv', 'TO'): e.tocsv, ('csv', 'APPEND'): e.appendcsv,
              ('tsv', 'TO'): e.totsv, ('tsv', 'APPEND'): e.appendtsv}[
                  (fmt, op)]
        fn(table, src, **a)
    elif fmt == 'pickle':
        if wh is not None:
            a['write_header'] = wh
        (e.topickle if op == 'TO' else e.appendpickle)(table, src, **a)
    elif fmt == 'json':
        e.tojson(table, src, **a)
    elif fmt == 'jsonlines':
        e.tojson(table, src, lines=True, **a)
    elif fmt == 'jsonarrays':
        e.tojsonarrays(table, src, **a)
    else:
        (e.totext if op == 'TO' else e.appendtext)(table, src, **a)


def _default_wh(fmt, op):
    return op == 'TO'


def run_case(case):
    _FLUENT[0] = bool(case.get('fluent'))
    e = load_petl()
    log = Log()
    fmt, kind, args = case['fmt'], case['target'], case['args']
    probes = {'fmt:' + fmt: 1, 'target:' + kind: 1}
    what = '%s on %s target, args %r' % (fmt, kind, args)
    sig = {'fmt': fmt, 'target': kind, 'encoding': args.get('encoding')}
    nontrivial = False
    try:
        with devices.TempSandbox() as sb, _cwd(sb.path if case.get('relname')
                                               else None):
            store = SimStore(frag=case.get('frag'))
            # (a relative file name, in the sandbox as working directory:
            # names that merely begin like a URL scheme are local files)
            tgt = Target(e, kind, fmt, store,
                         '' if case.get('relname') else sb.path,
                         case.get('relname') or 't',
                         srcobj=case.get('srcobj'))
            if case.get('decoy') and fmt in ('csv', 'tsv'):
                # another file written and read with the same functions and
                # OTHER formatting arguments first (an application handles
                # more than one file): arguments belong to a call
                probes['decoy-file-first'] = 1
                dargs = dict(case['decoy'])
                dtgt = Target(e, 'memory', fmt, store, sb.path, 'decoy')
                try:
                    _write(e, fmt, 'TO', [['p', 'q'], ['1', 'x|y'],
                                          ['2', 'z']], dtgt.w, dargs, None)
                    _write(e, fmt, 'APPEND', [['p', 'q'], ['3', '']],
                           dtgt.w, dargs, None)
                    ra = dict(dargs)
                    list(iter((e.fromcsv if fmt == 'csv' else e.fromtsv)(
                        dtgt.reader(), **ra)))
                except Exception:
                    pass
            kept = []
            long_view = [None]  # one reader view kept across the history
            records = []        # content model: rows in file order
            since_to = []       # tables written since the last TO
            enc_args = dict((k, v) for k, v in args.items()
                            if k in ('encoding', 'errors'))
            same = None
            for opi, (op, tenc, wh) in enumerate(case['history']):
                table = _inflated(case, opi, dec_table(tenc))
                if case.get('same_object'):
                    # the caller keeps ONE list of lists and edits it in place
                    # between the writes (header row object included):
                    # nothing may be remembered by the identity of its parts
                    if same is None:
                        same = [list(r) for r in table]
                    else:
                        if same and table:
                            same[0][:] = table[0]
                            same[1:] = [list(r) for r in table[1:]]
                        else:
                            same[:] = [list(r) for r in table]
                    wtable = same       # (what is handed to petl; the model
                    #                     keeps its own copy, `table`)
                    probes['one-table-object-edited-in-place'] = 1
                else:
                    wtable = table
                if len(table) > 1:
                    nontrivial = True
                whe = _default_wh(fmt, op) if wh is None else wh
                sig['op'] = op
                sig['appended'] = op == 'APPEND'
                # ---- reference first: inapplicable cases stop here -------
                if op == 'TO':
                    new_records = []
                    since_to = []
                else:
                    new_records = list(records)
                if fmt in ('csv', 'tsv', 'pickle'):
                    new_records += (table if whe else table[1:])
                if fmt in ('csv', 'tsv'):
                    want = _csv_reference(new_records, fmt, args)
                elif fmt == 'pickle':
                    want = [tuple(r) for r in new_records]
                elif fmt in ('json', 'jsonlines'):
                    hdr = table[0]
                    if len(table) < 2 or len(set(hdr)) != len(hdr):
                        raise _Inapplicable('json needs a data row and '
                                            'distinct field names')
                    want = [tuple(hdr)] + [
                        tuple(_jsonify(r[i]) if i < len(r) else None
                              for i in range(len(hdr))) for r in table[1:]]
                elif fmt == 'jsonarrays':
                    want = [_jsonify(list(r)) for r in
                            (table if args.get('output_header') else
                             table[1:])]
                else:
                    want = None
                # ---- the write --------------------------------------------
                if opi in case.get('failed_write_before', ()):
                    # an earlier attempt that fails part-way (its row source
                    # raises); the exception object is kept alive, as a caller
                    # collecting errors would
                    if case.get('failed_mode') == 'sink' and \
                            kind.startswith('sim'):
                        # ... or because the target runs out of space
                        store.write_budget = case.get('failed_at', 1) * 9
                        try:
                            _write(e, fmt, 'TO', table, tgt.w, args, wh)
                        except SimDiskFull as ex:
                            kept.append(ex)
                            probes['failed-write-attempt:sink'] = 1
                        except Exception:
                            pass
                        finally:
                            store.write_budget = None
                    else:
                        bad = PipeFault([list(r) for r in table] +
                                        [list(table[-1])] * 5,
                                        case.get('failed_at', 1))
                        try:
                            _write(e, fmt, 'TO', bad, tgt.w, args, wh)
                        except SimSourceError as ex:
                            kept.append(ex)
                            probes['failed-write-attempt'] = 1
                        except Exception:
                            pass
                try:
                    _write(e, fmt, op, wtable, tgt.w, args, wh)
                except (UnicodeError, KeyError, IndexError, csv.Error) as ex:
                    if fmt in ('json', 'jsonlines', 'jsonarrays') and \
                            isinstance(ex, UnicodeError) and \
                            _json_reference_ok(table, args):
                        raise _Bad('write-raised', '%s: %s #%d raised %s: %s '
                                   '(json.dumps with the same arguments '
                                   'encodes these rows, and the result is '
                                   'valid UTF-8)'
                                   % (what, op, opi, type(ex).__name__, ex))
                    if fmt == 'text' or isinstance(ex, UnicodeError):
                        raise _Inapplicable(str(ex))
                    raise _Bad('write-raised', '%s: %s #%d raised %s: %s '
                               '(the stdlib reference accepts these rows)'
                               % (what, op, opi, type(ex).__name__, ex))
                except _Bad:
                    raise
                except Exception as ex:
                    # nothing else can go wrong with these rows, arguments
                    # and targets
                    raise _Bad('write-raised', '%s: %s #%d raised %s: %s'
                               % (what, op, opi, type(ex).__name__, ex))
                records = new_records
                since_to.append((table, whe))
                log.add('op', opi, op, len(table))
                if kept:
                    # now the caller lets go of the old exception (and with it
                    # of whatever the failed attempt left open)
                    del kept[:]
                    gc.collect()
                if store.open_handles:
                    raise _Bad('handle-left-open', '%s: %d handles open '
                               'after %s #%d' % (what, store.open_handles,
                                                 op, opi))
                # ---- read back through a fresh handle ----------------------
                rd = tgt.reader()
                got = None
                fresh_view = None
                hdr_arg = None
                try:
                    if fmt in ('csv', 'tsv'):
                        ra = dict(enc_args)
                        ra.update(_csvargs(fmt, args))
                        ra.pop('dialect')
                        hdr_arg = ['h%d' % i for i in range(3)] \
                            if case.get('read_header') else None
                        if case.get('read_header') == 'own':
                            hdr_arg = ['' if c is None else str(c)
                                       for c in table[0]]
                        view = (e.fromcsv if fmt == 'csv' else e.fromtsv)(
                            rd, header=hdr_arg, **ra)
                        if case.get('decoy'):
                            # another reader view with OTHER csv arguments is
                            # built (not read) before this one is read: views
                            # keep their own arguments
                            try:
                                (e.fromcsv if fmt == 'csv' else e.fromtsv)(
                                    tgt.reader(), **dict(case['decoy']))
                            except Exception:
                                pass
                        got = [r for r in iter(view)]
                        fresh_view = view
                        if hdr_arg is not None:
                            want = [tuple(hdr_arg)] + want
                    elif fmt == 'pickle':
                        fresh_view = e.frompickle(rd)
                        got = [r for r in iter(fresh_view)]
                    elif fmt == 'json':
                        if 'prefix' in args:
                            raw = _raw(tgt, what).decode('utf-8')
                            body = raw[len(args['prefix']):
                                       len(raw) - len(args['suffix'])]
                            ds = json.loads(body)
                            got = [tuple(table[0])] + [
                                tuple(d.get(f) for f in table[0])
                                for d in ds]
                        else:
                            fresh_view = e.fromjson(rd)
                            got = [r for r in iter(fresh_view)]
                            got2, want2 = _json_header_read(
                                e, rd, table, False)
                            if canon_rows(got2) != canon_rows(want2):
                                raise _Bad('round-trip-differs',
                                           '%s: read back with header= and '
                                           'missing= gives %r, expected %r'
                                           % (what, got2, want2))
                    elif fmt == 'jsonlines':
                        fresh_view = e.fromjson(rd, lines=True)
                        got = [r for r in iter(fresh_view)]
                        got2, want2 = _json_header_read(e, rd, table, True)
                        if canon_rows(got2) != canon_rows(want2):
                            raise _Bad('round-trip-differs',
                                       '%s: read back with header= and '
                                       'missing= gives %r, expected %r'
                                       % (what, got2, want2))
                    elif fmt == 'jsonarrays':
                        raw = _raw(tgt, what).decode('utf-8')
                        if 'prefix' in args:
                            raw = raw[len(args['prefix']):
                                      len(raw) - len(args['suffix'])]
                        got = json.loads(raw)
                        want = [list(r) for r in want]
                    if fresh_view is not None and got is not None:
                        # two passes over the reader view that overlap (a
                        # self join, zip(t, t)) read the same
                        it1 = iter(fresh_view)
                        a = [r for r in itertools.islice(it1, 2)]
                        b = [r for r in iter(fresh_view)]
                        a += [r for r in it1]
                        del it1
                        for x in (a, b):
                            if canon_rows(x) != canon_rows(got):
                                raise _Bad('round-trip-differs',
                                           '%s: overlapping passes over the '
                                           'reader return %r and %r, a '
                                           'single pass %r' % (what, a, b,
                                                               got))
                except _Bad:
                    raise
                except Exception as ex:
                    raise _Bad('read-back-raised',
                               '%s: reading back after %s #%d raised %s: %s'
                               % (what, op, opi, type(ex).__name__, ex))
                if store.open_handles:
                    raise _Bad('handle-left-open', '%s: %d handles open '
                               'after reading back' % (what,
                                                       store.open_handles))
                # a reader view created earlier in the history is iterated
                # again: it must show what the target holds now
                if want is not None and kind != 'memory' and \
                        fresh_view is not None:
                    if long_view[0] is None:
                        long_view[0] = fresh_view
                        long_view.append(hdr_arg)
                    else:
                        want_old = want
                        if long_view[1] is not None:
                            # (it keeps the header= it was given)
                            want_old = [tuple(long_view[1])] + want[1:]
                        try:
                            again = [r for r in iter(long_view[0])]
                        except Exception as ex:
                            raise _Bad('read-back-raised',
                                       '%s: a reader view created earlier, '
                                       'iterated again after %s #%d, raised '
                                       '%s: %s' % (what, op, opi,
                                                   type(ex).__name__, ex))
                        if canon_rows(again) != canon_rows(want_old):
                            raise _Bad('old-view-differs',
                                       '%s: a reader view created earlier, '
                                       'iterated again after %s #%d, yields '
                                       '%r; the target now holds %r'
                                       % (what, op, opi, again, want_old))
                        probes['old-reader-view-reiterated'] = 1
                if want is not None:
                    log.add('read', canon_rows(got))
                    if canon_rows(got) != canon_rows(want):
                        raise _Bad('round-trip-differs',
                                   '%s: after %s #%d the file reads back as '
                                   '%r, expected %r'
                                   % (what, op, opi, got, want))
                    if fmt in ('csv', 'tsv') and \
                            not case.get('read_header') and \
                            _identity_applies(new_records, args):
                        ident = [tuple('' if c is None else c for c in r)
                                 for r in new_records]
                        if canon_rows(got) != canon_rows(ident):
                            raise _Bad('round-trip-not-identity',
                                       '%s: text cells came back as %r, '
                                       'written %r' % (what, got, ident))
                        probes['csv-identity-checked'] = 1
                # ---- append clause: bytes equal to*(concatenation) ---------
                if op == 'APPEND' and fmt in ('csv', 'tsv', 'pickle',
                                              'text'):
                    t0, wh0 = since_to[0]
                    if all(not w for _, w in since_to[1:]):
                        cat = [list(r) for r in t0]
                        for t, _ in since_to[1:]:
                            cat += [list(r) for r in t[1:]]
                        twin = Target(e, kind, fmt, store, sb.path, 'twin',
                                      srcobj=case.get('srcobj'))
                        first_wh = case['history'][
                            opi - (len(since_to) - 1)][2]
                        try:
                            _write(e, fmt, 'TO', cat, twin.w, args, first_wh)
                        except Exception as ex:
                            raise _Inapplicable(str(ex))
                        a_bytes, b_bytes = _raw(tgt, what), _raw(twin, what)
                        probes['append-bytes-compared'] = 1
                        if a_bytes != b_bytes:
                            raise _Bad('append-differs-from-to-cat',
                                       '%s: to+append left %r, to(cat) '
                                       'writes %r' % (what, a_bytes,
                                                      b_bytes))
            gc.collect()
    except _Inapplicable as ex:
        return outcome('trivial', digest=log.hexdigest(), nontrivial=False,
                       extra={'group': fmt, 'why': str(ex)[:40]})
    except _Bad as b:
        sig['vclass'] = b.vclass
        sig['bom_encoding'] = args.get('encoding') in BOM_ENCODINGS
        sig['compressed'] = kind in ('sim-gz', 'sim-bz2', 'path-gz',
                                     'path-bz2')
        return outcome('violation', vclass=b.vclass, msg=b.msg, sig=sig,
                       digest=log.hexdigest(), extra={'group': fmt})
    if case.get('frag'):
        probes['fragmented-reads'] = 1
    if args.get('encoding') in BOM_ENCODINGS:
        probes['bom-encoding'] = 1
    if len(case['history']) > 1:
        probes['multi-op-history'] = 1
    if case.get('srcobj'):
        probes['target-as:' + case['srcobj']] = 1
    return outcome('ok', digest=log.hexdigest(), probes=probes,
                   steps=len(case['history']), nontrivial=nontrivial,
                   states=['%s:%s:%s:%s' % (fmt, kind, args.get('encoding'),
                                            ''.join(h[0][0] for h in
                                                    case['history']))],
                   extra={'group': fmt})


def warmup():
    load_petl()


def shrink_candidates(case):
    import copy
    h = case['history']
    if len(h) > 1:
        for i in range(len(h)):
            c = copy.deepcopy(case)
            del c['history'][i]
            if c['history'][0][0] != 'TO':
                c['history'][0][0] = 'TO'
            yield c
    for i, (op, t, wh) in enumerate(h):
        for d in ddmin_lists(t[1:]):
            c = copy.deepcopy(case)
            c['history'][i][1] = [t[0]] + d
            yield c
    for k in list(case['args']):
        if k == 'template':
            continue
        c = copy.deepcopy(case)
        del c['args'][k]
        yield c
    if case.get('frag'):
        c = copy.deepcopy(case)
        c['frag'] = None
        yield c
    if case['target'] != 'sim':
        c = copy.deepcopy(case)
        c['target'] = 'sim'
        yield c
    for i, (op, t, wh) in enumerate(h):
        for ri in range(1, len(t)):
            for ci in range(len(t[ri])):
                if t[ri][ci] != 'x':
                    c = copy.deepcopy(case)
                    c['history'][i][1][ri][ci] = 'x'
                    yield c


def selfcheck(agg):
    if agg['truncated'] or agg['evaluations'] < 5000:
        return []
    errs = []
    for p in ['fmt:' + f for f in set(FORMATS)] + \
            ['target:' + t for t in set(TARGETS)] + \
            ['csv-identity-checked', 'append-bytes-compared',
             'failed-write-attempt', 'old-reader-view-reiterated',
             'fragmented-reads', 'bom-encoding', 'multi-op-history']:
        if not agg['probes'].get(p):
            errs.append('probe never hit: ' + p)
    return errs
