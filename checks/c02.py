"""C02 - pipelines are lazy: nothing is read at construction, and k output rows
cost O(k) source rows (bytes), independent of the source length.

The property is an accounting invariant at the read seam: row sources are
metered SimTables (data-row pulls charged to the consumer task the scheduler
is stepping), byte sources are metered SimFiles.  Each case runs the same
consumers on two sources that share their first rows and differ in length."""
import gc
import itertools

from sim import devices
from sim.canon import Log, dec_table, enc_table, canon_row, canon_cell
from sim.catalogue import RECIPES, NAMES, cut_after_conflicts, World, _csv_bytes
from sim.core import outcome, draw_config, not_a_harness_bug
from sim.devices import LongTable, SimTable, PoisonedTail
from sim.gen import gen_table, gen_sorted_table, sorted_row
from sim.loader import load_petl
from sim.viewcase import build, StageWorld

PROP = 'C02'
LEVEL = 'exploration'
RULE = ('case = (recipe or stack of 1..3 recipes, argument variant, source '
        'prefix of 8..20 rows continued cyclically to two lengths L1 < L2 '
        '(rows: 60..150 vs 5000..12000; bytes: 3000 vs 30000 rows), 1..3 '
        'consumers (raw next() under an interleaving schedule, islice, head, '
        'look, lookstr, see, _repr_html_) each demanding k in 0..12 rows). '
        'Checked: zero data-row pulls at construction (all recipes); for '
        'streaming recipes pulls <= k + declared look-ahead after every '
        'step, identical pulls/bytes on L1 and L2, poisoned tail never '
        'reached. Non-trivial: construction succeeded, a consumer obtained '
        'at least one data row and (streaming recipes) the short source was '
        'not exhausted. Distinct: by digest of the whole case.')
STATES = ('recipe stack (or extractor) x streaming kind x sorted tuple of '
          'consumer kinds')
COMPONENTS = {
    'real': ['petl views, look/see/_repr_html_/head/islice consumers, '
             'csv/pickle/text/json-lines readers, TextIOWrapper'],
    'stub': ['SimTable/LongTable metered row sources', 'SimFile metered byte '
             'source (read1 returns what was asked; chunking is the '
             'TextIOWrapper\'s own 8 KiB)'],
}
ASSUMPTIONS = [
    'the declared look-ahead constants in sim/catalogue.py (0 for plain '
    'maps, 1 for the *usingcontext operators, n for skip(n), the sample size '
    'for unpackdict) are the "small constant" of the property',
    'pulls are attributed to the task being stepped; build sides of hash '
    'joins/hash set operations may be scanned once per iterator',
]

ROW_NAMES = [n for n in NAMES if RECIPES[n].nsrc >= 1
             and not RECIPES[n].fails
             and (not RECIPES[n].group.startswith('io.')
                  or n.startswith('tee'))
             and RECIPES[n].group != 'util.counting'
             and n not in ('facet', 'cache-of-sort', 'sort-of-sort')]
STREAM_NAMES = [n for n in ROW_NAMES if RECIPES[n].stream]
NONSTREAM_NAMES = [n for n in ROW_NAMES if not RECIPES[n].stream]
STACKABLE = [n for n in STREAM_NAMES if RECIPES[n].stackable]
# Non-streaming views that deliver their header row after reading nothing
# but the header rows of their sources (the sort-backed operators yield it
# before they start sorting; tail() before it starts buffering).  Declared,
# from reading the code: a constructor that consults the header of such a
# view (natural joins, the *all functions) still reads no data row.
# pivot, recast and transpose need data for their header and are not here.
HDR_FREE = ('aggregate', 'antijoin', 'complement', 'conflicts', 'crossjoin',
            'diff', 'distinct', 'duplicates', 'fold',
            'groupcountdistinctvalues', 'groupselectfirst', 'groupselectlast',
            'groupselectmax', 'groupselectmin', 'intersection', 'join',
            'join-natural', 'leftjoin', 'lookupjoin', 'merge',
            'mergeduplicates', 'mergesort', 'outerjoin', 'recordcomplement',
            'recorddiff', 'rightjoin', 'rowgroupmap', 'rowreduce', 'sort',
            'tail', 'unique', 'unjoin')
HDR_FREE = tuple(n for n in HDR_FREE if n in NONSTREAM_NAMES)
HDR_CTOR_STACKABLE = [n for n in STACKABLE if RECIPES[n].hdr_ctor]
# views with a build side that they read only after their header went out
HDR_FREE_BUILD = ('hashantijoin', 'hashcomplement', 'hashintersection',
                  'presorted-merge-short', 'selectin-lazy')
BYTE_NAMES = ['fromcsv', 'fromtsv', 'frompickle', 'fromtext',
              'fromjson-lines']
CONSUMERS = ['next', 'next', 'next', 'islice', 'head', 'look', 'lookstr',
             'see', 'repr_html', 'rowslice', 'data-slice', 'records-slice',
             'list-head', 'len-head', 'tuple-rowslice', 'header',
             'fieldnames', 'default-preview', 'repr-container']
# repr() of the row containers dicts()/records()/namedtuples() shows five
# items and looks at a sixth
REPR_CONTAINERS = ['dicts', 'records', 'namedtuples']
# previews called without a limit: the configured default applies (5 rows)
DEFAULT_PREVIEWS = ['str', 'repr', 'lookstr', 'look', 'see']
LOOKLIKE = ('look', 'lookstr', 'see', 'repr_html', 'default-preview')
# list(v) / tuple(v) / len(v) on a petl view iterate it twice (the length is
# taken first): the cost is still O(k), with factor 2
TWICE = ('list-head', 'len-head', 'tuple-rowslice')


# stages whose output can depend on where an input ends (rows of a second
# table or of a longer column come after the first is exhausted; the
# *usingcontext operators see "no next row"): the period argument below does
# not apply to pipelines containing them
END_SENSITIVE = ('addcolumn', 'addcolumn-view', 'annex', 'cat', 'stack',
                 'cat-after-short',
                 'selectusingcontext', 'addfieldusingcontext', 'unflatten')


def budget(tier):
    if tier == 'quick':
        return {'cases': 24000, 'wall_cap_s': 240}
    return {'cases': 400000, 'wall_cap_s': 1500}


_LOOK = [{'style': 'simple'}, {'style': 'minimal'}, {'style': 'grid'},
         {'truncate': 3}, {'width': 20}, {'vrepr': 'str'},
         {'index_header': True}, {'style': 'minimal', 'truncate': 1,
                                  'index_header': True}]
LOOK_KW = {'look': _LOOK, 'lookstr': [d for d in _LOOK if 'vrepr' not in d],
           'see': [{'vrepr': 'str'}, {'index_header': True}]}


def _look_kw(c):
    kw = dict(c.get('kw') or {})
    if kw.get('vrepr') == 'str':
        kw['vrepr'] = str
    return kw


def _fix(c):
    # limit=0 means "use the configured default" for look/see/display
    if c['kind'] == 'default-preview':
        c['k'] = 5          # petl.config.look_limit / see_limit as shipped
    if c['kind'] in LOOKLIKE and c['k'] == 0:
        c['k'] = 1
    return c


EAGER_ITER = [n for n in ('hashjoin', 'hashleftjoin', 'hashrightjoin')
              if n in RECIPES]


STREAM_PAIRS = [(n, i) for n in STREAM_NAMES
                for i in range(len(RECIPES[n].variants))]


def gen_case(rng, tier, g):
    vi0 = None
    r = rng.random()
    if r < 0.12:
        return _gen_bytes(rng, tier, g)
    eager = False
    if r < 0.30:
        name = rng.choice(NONSTREAM_NAMES)
    elif r < 0.38:
        # views whose iter() already reads (the hash joins load their build
        # side there): whatever is stacked on top of them must not call
        # iter() - or len(), bool(), repr() - on its input when constructed
        name = rng.choice(EAGER_ITER)
        eager = True
    else:
        name = rng.choice(STREAM_NAMES)
        if rng.random() < 0.6:
            # round robin over every (recipe, argument variant) pair
            name, vi0 = STREAM_PAIRS[g % len(STREAM_PAIRS)]
    rec = RECIPES[name]
    stack = [[name, rng.randrange(len(rec.variants))]]
    if vi0 is not None:
        stack[0][1] = vi0
    if rec.stream and not rec.items and not rec.multi \
            and rec.profile != 'biggroups' \
            and rng.random() < (0.95 if eager else 0.3):
        # (not on the big-groups source: its rows depend on its length, so
        # the two lengths of a case do not share a prefix a filter could be
        # compared on)
        for _ in range(rng.choice([1, 1, 2])):
            n2 = rng.choice(STACKABLE)
            stack.append([n2, rng.randrange(len(RECIPES[n2].variants))])
    if name in HDR_FREE and not rec.items and not rec.multi \
            and rng.random() < 0.45:
        # a header-consulting constructor on top of a view whose header
        # costs no data row: construction still reads none
        for _ in range(rng.choice([0, 0, 1])):
            n2 = rng.choice(STACKABLE)
            stack.append([n2, rng.randrange(len(RECIPES[n2].variants))])
        n2 = rng.choice(HDR_CTOR_STACKABLE)
        stack.append([n2, rng.randrange(len(RECIPES[n2].variants))])
    # (Conflict sets: their text form, which the formatting views would
    # take, depends on the interpreter's hash seed)
    cut_after_conflicts(stack)
    nf = rng.randint(3, 5)
    prof = 'default' if rec.profile == 'textish' else None
    if rec.profile == 'textish':
        nf = 5
    if rec.profile == 'containers':
        prof = 'containers'
    if rec.profile == 'biggroups':
        # (the rows are generated from the length, see _factory)
        nf = 5
        tables = [enc_table(gen_sorted_table(8, nf)) for _ in range(rec.nsrc)]
    elif rec.profile == 'sorted':
        # endless sorted tables (key groups of 1, 2, 3 rows; the second one
        # holds every second row of the first)
        nf = 5
        tables = [enc_table(gen_sorted_table(rng.randint(12, 20), nf,
                                             stride=i + 1))
                  for i in range(rec.nsrc)]
    else:
        # (a fifth of the plain sources carry short and long rows: the
        # padding paths of the operators have to stream as well)
        # (not under the expanding views: an empty row expands to nothing,
        # which makes them filter-like on such data)
        ragged = rec.profile is None and not rec.rect and \
            rng.random() < 0.2 and not any(
                RECIPES[n].stream and RECIPES[n].stream[0] == 'expand'
                for n, _ in stack)
        tables = [gen_table(rng, 20, minrows=8, nfields=nf, ragged=ragged,
                            profile=prof)
                  for _ in range(rec.nsrc)]
    # build sides stay short
    for bi in rec.build:
        if rec.profile == 'sorted':
            tables[bi] = enc_table(gen_sorted_table(rng.randint(0, 6), nf,
                                                    stride=2))
        else:
            tables[bi] = gen_table(rng, 8, minrows=0, nfields=nf,
                                   ragged=False)
    ncons = rng.choice([1, 1, 2, 3])
    consumers = []
    # views that yield items rather than rows have no header row: the table
    # consumers (head, look, ...) do not apply to them
    kinds = ['next', 'next', 'islice'] if RECIPES[stack[-1][0]].items \
        else CONSUMERS
    if any(n == 'skip' for n, _ in stack) and not \
            RECIPES[stack[-1][0]].items:
        # the header of skip(n) is the n-th source row: consumers that ask
        # for the header only would be charged for it
        kinds = [k for k in kinds if k not in ('header', 'fieldnames')]
    for i in range(ncons):
        consumers.append(_fix({'kind': rng.choice(kinds),
                               'k': rng.choice([0, 1, 2, 3, 5, 8, 12])}))
        if consumers[-1]['kind'] == 'default-preview':
            consumers[-1]['how'] = rng.choice(DEFAULT_PREVIEWS)
        if consumers[-1]['kind'] == 'repr-container':
            consumers[-1]['how'] = rng.choice(REPR_CONTAINERS)
        if consumers[-1]['kind'] in LOOK_KW and rng.random() < 0.4:
            # documented formatting arguments of the look-style consumers
            consumers[-1]['kw'] = rng.choice(LOOK_KW[consumers[-1]['kind']])
    # interleaving of the raw next() consumers: a sequence of task indices
    order = []
    for i, c in enumerate(consumers):
        if c['kind'] == 'next':
            order += [i] * (c['k'] + 1)
    rng.shuffle(order)
    return {'prop': PROP, 'mode': 'rows', 'stack': stack, 'tables': tables,
            'config': draw_config(rng, 0.15, exclude=(
                'sort_buffersize', 'failonerror', 'look_limit', 'see_limit',
                'display_limit')),
            'L1': rng.randint(60, 150), 'L2': rng.randint(5000, 12000),
            'fluent': rng.random() < 0.15,
            'consumers': consumers, 'order': order}


def _gen_bytes(rng, tier, g):
    name = rng.choice(BYTE_NAMES)
    t = gen_table(rng, 20, minrows=8, profile='text', ragged=False,
                  nfields=rng.randint(3, 5))
    consumers = [_fix({'kind': rng.choice(['next', 'next', 'islice', 'look',
                                           'head']),
                       'k': rng.choice([0, 1, 2, 3, 5, 8, 12])})
                 for _ in range(rng.choice([1, 2]))]
    order = []
    for i, c in enumerate(consumers):
        if c['kind'] == 'next':
            order += [i] * (c['k'] + 1)
    rng.shuffle(order)
    return {'prop': PROP, 'mode': 'bytes', 'extractor': name, 'tables': [t],
            'L1': 3000, 'L2': 30000, 'consumers': consumers, 'order': order,
            'variant': rng.randrange(3)}


# ---------------------------------------------------------------------------

def _lookahead(stack):
    kinds = [RECIPES[n].stream for n, _ in stack]
    if any(k is None for k in kinds):
        return None, None
    la = sum(k[1] for k in kinds)
    if any(k[0] == 'filter-end' for k in kinds):
        return 'filter-end', la
    if any(k[0] in ('filter', 'contract') for k in kinds):
        return 'filter', la
    return 'map', la


def _header_cost(stack):
    """Rows the pipeline needs from its sources to produce its header row
    (declared look-aheads; unbounded when a stage that needs sample rows
    sits above a filter-like one)."""
    need = 0
    for n, _ in reversed(stack):
        st = RECIPES[n].stream
        if st is None:
            return 10 ** 9
        if st[0] in ('filter', 'filter-end', 'contract') and need > 0:
            return 10 ** 9
        need += st[1]
    return need


def _factory(total, poison, sorted_profile=False, biggroups=False):
    def make(i, t, rec=None):
        n = len(t) - 1
        if biggroups:
            def big(j, nf=len(t[0])):
                return [(j - 1) * 4 // max(total - 1, 1), 'r%07d' % j,
                        j % 10, j % 4, 'e%d' % (j % 3)][:nf]
            lt = LongTable(t[:1], total, big, mode='copy', name='s%d' % i)
            lt.poison = poison
            return lt

        def filler(j, t=t, n=n):
            if sorted_profile:
                return sorted_row(j, len(t[0]), stride=i + 1)
            return t[1 + (j - 1) % n]
        # (sorted profile: source i holds every (i+1)-th row of source 0, so
        # it must end where source 0 ends)
        if sorted_profile:
            # both tables end with the same row: source 1 has tb rows, the
            # last one being row 2*(tb-2) of source 0, which is source 0's
            # last row as well
            tb = max(4, total // 2)
            tot = tb if i else 2 * tb - 2
        else:
            tot = total
        lt = LongTable(t, tot, filler, mode='copy', name='s%d' % i)
        lt.poison = poison
        return lt
    return make


def _run_consumer(e, view, c, tid, items):
    """Atomic consumers (petl's own); returns number of data rows obtained."""
    k = c['k']
    kind = c['kind']
    with devices.as_task(tid):
        if kind == 'islice':
            got = list(itertools.islice(iter(view), 0, k + (0 if items else 1)))
            return max(0, len(got) - (0 if items else 1))
        if kind == 'head':
            got = list(iter(e.head(view, k)))
            return max(0, len(got) - 1)
        if kind == 'rowslice':
            got = list(iter(e.rowslice(view, k)))
            return max(0, len(got) - 1)
        if kind == 'header':
            e.header(view)
            return 0
        if kind == 'fieldnames':
            e.fieldnames(view)
            return 0
        if kind == 'list-head':
            got = list(e.head(view, k))
            return max(0, len(got) - 1)
        if kind == 'len-head':
            return max(0, len(e.head(view, k)) - 1)
        if kind == 'tuple-rowslice':
            got = tuple(e.rowslice(view, k))
            return max(0, len(got) - 1)
        if kind == 'data-slice':
            return len(list(iter(e.data(view, k))))
        if kind == 'records-slice':
            return len(list(iter(e.records(view, 0, k))))
        if kind == 'look':
            str(e.look(view, limit=k, **_look_kw(c)))
            return k
        if kind == 'lookstr':
            e.lookstr(view, limit=k, **_look_kw(c))
            return k
        if kind == 'see':
            str(e.see(view, limit=k, **_look_kw(c)))
            return k
        if kind == 'default-preview':
            how = c.get('how', 'str')
            if how == 'str':
                str(e.wrap(view))
            elif how == 'repr':
                repr(e.wrap(view))
            elif how == 'lookstr':
                str(e.lookstr(view))
            elif how == 'look':
                str(e.look(view))
            else:
                str(e.see(view))
            return k
        if kind == 'repr-container':
            repr(getattr(e, c.get('how', 'dicts'))(view))
            return 5
        if kind == 'repr_html':
            import petl.config as config
            saved = config.display_limit
            config.display_limit = k
            try:
                e.wrap(view)._repr_html_()
            finally:
                config.display_limit = saved
            return k
    raise ValueError(kind)


# demand of a consumer in data rows (look-style consumers peek one row beyond
# the limit to know whether to print "...")
def _demand(c):
    if c['kind'] in ('header', 'fieldnames'):
        return 0
    if c['kind'] in LOOKLIKE:
        return c['k'] + 1 if c['k'] > 0 else 0
    if c['kind'] == 'repr-container':
        return 6
    return c['k']


class _Bad(Exception):
    def __init__(self, vclass, msg):
        Exception.__init__(self, msg)
        self.vclass = vclass
        self.msg = msg


def _one_length(e, case, total, log, sb, poison):
    """Run the consumers on sources of `total` rows.  Returns per-task
    (delivered data rows, pulls per source, exhausted flag)."""
    stack = case['stack']
    rec = RECIPES[stack[0][0]]
    kind, la = _lookahead(stack)
    tables = [dec_table(t) for t in case['tables']]
    items = RECIPES[stack[-1][0]].items
    streamed = [i for i in range(rec.nsrc) if i not in rec.build]

    fac = _factory(total, poison if kind == 'map' else None,
                   sorted_profile=rec.profile == 'sorted',
                   biggroups=rec.profile == 'biggroups')

    def table_factory(i, t):
        if i in rec.build:
            return SimTable(t, mode='copy', name='s%d' % i)
        return fac(i, t)

    # What a stage that consults its input's header at construction may
    # pull: the *declared* cost of the header row of the pipeline below it -
    # the look-ahead constants of the stages below on the streamed sources
    # (skip(n): n rows, unpackdict: its sample), one scan of a build side.
    # Declared, not measured: a view that newly needs a data row to produce
    # its header is exactly what this clause must catch.
    hdr_budget = [0] * rec.nsrc
    for pos in range(1, len(stack)):
        if RECIPES[stack[pos][0]].hdr_ctor:
            # rows the stages below need from the sources to produce their
            # header: walk down; a look-ahead of la adds la input rows; a
            # filter-like stage that must deliver rows (need > 0) may scan
            # arbitrarily far
            below = 0
            for n, _ in reversed(stack[:pos]):
                st = RECIPES[n].stream
                if st is None:
                    # (a stage in between that needs rows of this view for
                    # its own header - skip(n), unpackdict - makes it run)
                    if n not in HDR_FREE or below > 0:
                        below = 10 ** 9
                    break
                if st[0] in ('filter', 'filter-end', 'contract') and below > 0:
                    below = 10 ** 9
                    break
                below += st[1]
            for i in range(rec.nsrc):
                if i in rec.build:
                    # (these read their build side when the first data row
                    # is asked for, after the header: declared, see HDR_FREE)
                    # (unless a stage in between needs data rows of the
                    # view for its own header: unpackdict's sample, skip(n))
                    if stack[0][0] not in HDR_FREE_BUILD or below > 0:
                        hdr_budget[i] += len(tables[i])
                else:
                    hdr_budget[i] += below
    w, views = build(e, stack, None, tempdir=sb.path, tables=tables,
                     fluent=bool(case.get('fluent')),
                     table_factory=table_factory)
    try:
        # (1) construction reads no data row.  A recipe that consults the
        # header of its input at construction (*all functions, natural
        # joins, record* set operations) and sits on top of another view
        # pays what that view's header row costs (e.g. skip(n): n rows;
        # a hash join: its build side); `hdr_budget` is that measured cost.
        for i, s in enumerate(w.s):
            if s.pulls('data') > hdr_budget[i]:
                raise _Bad('ctor-read-data',
                           'constructing the pipeline pulled %d data rows '
                           'from source %d (allowed: %d, the cost of the '
                           'header rows consulted)'
                           % (s.pulls('data'), i, hdr_budget[i]))
            if s.pulls('hdr') != 0 and not any(
                    RECIPES[n].hdr_ctor for n, _ in stack):
                raise _Bad('ctor-read-header',
                           'constructing the pipeline read the header of '
                           'source %d (%d times)' % (i, s.pulls('hdr')))
        view = views[0]
        cons = case['consumers']
        res = {}
        its = {}
        delivered = {}
        done = {}

        def check_bound(tid, d, demand, factor=1):
            if kind != 'map':
                return
            for i in streamed:
                p = w.s[i].pulls('data', tid)
                if p > factor * (max(d, demand) + la):
                    raise _Bad('pulls-exceed-bound',
                               'consumer %s obtained %d data rows (asked '
                               'for %d) but pulled %d data rows from source '
                               '%d; bound is rows + %d'
                               % (tid, d, demand, p, i, la))

        # raw next() consumers, interleaved as scheduled
        for ti in case['order']:
            c = cons[ti]
            tid = 'c%d' % ti
            if tid not in its:
                with devices.as_task(tid):
                    its[tid] = iter(view)
                delivered[tid] = 0
                done[tid] = False
            if done[tid]:
                continue
            with devices.as_task(tid):
                try:
                    row = next(its[tid])
                    delivered[tid] += 1
                    log.add('row', tid, (canon_cell if items
                                         else canon_row)(row))
                except StopIteration:
                    done[tid] = True
            d = delivered[tid] if items else max(0, delivered[tid] - 1)
            check_bound(tid, d, d)
        # abandon the raw iterators (a consumer that stops early releases
        # its iterator): nothing more may be pulled on release
        for tid in sorted(its):
            with devices.as_task(tid):
                it = its[tid]
                if hasattr(it, 'close'):
                    it.close()
                its[tid] = it = None
            d = delivered[tid] if items else max(0, delivered[tid] - 1)
            check_bound(tid, d, d)
        for tid in its:
            d = delivered[tid] if items else max(0, delivered[tid] - 1)
            res[tid] = (d, done[tid])
        # atomic consumers
        for ti, c in enumerate(cons):
            if c['kind'] == 'next':
                continue
            tid = 'c%d' % ti
            d = _run_consumer(e, view, c, tid, items)
            check_bound(tid, d, _demand(c), 2 if c['kind'] in TWICE else 1)
            res[tid] = (d, False)
        pulls = {}
        for tid in res:
            pulls[tid] = [w.s[i].pulls('data', tid) for i in range(rec.nsrc)]
            log.add('pulls', tid, res[tid], pulls[tid])
        if kind == 'filter' and not any(n in END_SENSITIVE for n, _ in stack) \
                and _header_cost(stack) < 10 ** 9 \
                and rec.profile != 'biggroups' \
                and not (rec.profile == 'sorted' and len(stack) > 1):
            # (nor is the sorted source under a further view: its pattern of
            # group sizes repeats, its key values grow, and a filter stacked
            # on top may well look at them - every key from 100 to 199
            # contains a '1')
            # (the big-groups source is not periodic: its key changes four
            # times over the whole length)
            # A filter-like pipeline has no fixed rows-in per row-out, but
            # the sources repeat with period P (the prefix rows, cycled; the
            # sorted profile repeats its pattern every 12 rows): a consumer
            # that got ALL the rows it asked for cannot have needed more than
            # a few periods per row.  (One left wanting reads on to the end,
            # legitimately.)  This is what exposes a full scan that the
            # length comparison cannot see, because a full scan always
            # exhausts the short source.
            for ti, c in enumerate(cons):
                tid = 'c%d' % ti
                if c['kind'] in LOOKLIKE + ('header', 'fieldnames') + TWICE:
                    continue
                d, done_ = res.get(tid, (0, True))
                if done_ or d != _demand(c) or d == 0:
                    continue
                for i in streamed:
                    period = 12 if rec.profile == 'sorted' \
                        else max(1, len(tables[i]) - 1)
                    bound = 3 * period * (d + 2) + la
                    if pulls[tid][i] > bound and total > bound + 50:
                        raise _Bad('filter-scans-too-far',
                                   'consumer %s asked for %d rows and got '
                                   'them, but %d data rows were pulled from '
                                   'source %d (its rows repeat with period '
                                   '%d; bound %d)'
                                   % (tid, d, pulls[tid][i], i, period,
                                      bound))
        kinds_ = [RECIPES[n].stream for n, _ in stack]
        if all(k is not None for k in kinds_) and \
                any(k[0] == 'contract' for k in kinds_) and \
                all(k[0] in ('contract', 'map') for k in kinds_):
            # n input rows make one output row (unflatten): a consumer that
            # took d rows needs n * (d + 1) input rows and a look-ahead, not
            # a number that grows faster than d
            fac_ = 1
            for k in kinds_:
                if k[0] == 'contract':
                    fac_ *= k[2]
            for ti, c in enumerate(cons):
                tid = 'c%d' % ti
                if c['kind'] in LOOKLIKE + ('header', 'fieldnames'):
                    continue
                d, done_ = res.get(tid, (0, True))
                # rows needed at each level, from the consumer down: a
                # stage's look-ahead is in rows of ITS input (skip(2) above
                # unflatten(3) costs six source rows)
                need = max(d, _demand(c)) + 2
                for k in reversed(kinds_):
                    need += k[1]
                    if k[0] == 'contract':
                        need *= k[2]
                for i in streamed:
                    bound = (2 if c['kind'] in TWICE else 1) * need
                    if pulls[tid][i] > bound and total > bound + 50:
                        raise _Bad('pulls-exceed-bound',
                                   'consumer %s obtained %d rows of a view '
                                   'that makes one row out of at most %d, '
                                   'but pulled %d data rows from source %d '
                                   '(bound %d)' % (tid, d, fac_,
                                                   pulls[tid][i], i, bound))
        ea = rec.ends_after.get(stack[0][1]) if len(stack) == 1 else None
        if ea is not None:
            # a view with a declared end (head(n), rowslice with a stop):
            # whatever is asked of it - a row past its last one included -
            # it needs no source row beyond that end
            for tid in res:
                c_ = cons[int(tid[1:])]
                fac_ = 2 if c_['kind'] in TWICE else 1
                for i in streamed:
                    if pulls[tid][i] > fac_ * (ea + 2) and total > ea + 50:
                        raise _Bad('reads-on-after-its-end',
                                   'consumer %s pulled %d data rows from '
                                   'source %d of a view that ends after %d'
                                   % (tid, pulls[tid][i], i, ea))
        sw = getattr(rec, 'stops_with', None)
        if sw is not None and len(stack) == 1:
            # a merge of sorted inputs that yields nothing once input `sw` has
            # ended: whatever the consumers asked for, nothing of the other
            # input beyond the last key of `sw` (plus the rows of one key
            # group and a look-ahead) is needed
            kb = max([r[0] for r in tables[sw][1:]] + [-1])
            for i in streamed:
                bound = 2 * kb + 8 + 12
                for tid in res:
                    factor = 2 if any(c['kind'] in TWICE for c in cons) else 1
                    if pulls[tid][i] > factor * bound and total > 4 * bound:
                        raise _Bad('reads-on-after-other-input-ended',
                                   'consumer %s pulled %d data rows from '
                                   'source %d although input %d ends at key '
                                   '%r, which source %d passes after about '
                                   '%d rows' % (tid, pulls[tid][i], i, sw,
                                                kb, i, 2 * kb + 8))
        exhausted = any(w.s[i].pulls('data') >= getattr(w.s[i], 'total',
                                                         total) - 1
                        for i in streamed)
        return res, pulls, exhausted
    finally:
        its = None
        w.close()
        del views
        gc.collect()


_BYTES_CACHE = {}


def _file_bytes(name, table, total, variant):
    key = (name, repr(table), total)
    if key in _BYTES_CACHE:
        return _BYTES_CACHE[key]
    import json
    import pickle
    n = len(table) - 1
    rows = [table[0]] + [table[1 + (j - 1) % n] for j in range(1, total)]
    if name == 'fromcsv':
        data = _csv_bytes(rows)
    elif name == 'fromtsv':
        data = _csv_bytes(rows, '\t')
    elif name == 'frompickle':
        data = b''.join(pickle.dumps(tuple(r), 2) for r in rows)
    elif name == 'fromtext':
        data = ('\n'.join(' '.join(str(c) for c in r) for r in rows)
                + '\n').encode()
    else:
        hdr = [str(h) for h in rows[0]]
        data = ''.join(json.dumps(dict(zip(hdr, r))) + '\n'
                       for r in rows[1:]).encode()
    if len(_BYTES_CACHE) > 8:
        _BYTES_CACHE.clear()
    _BYTES_CACHE[key] = data
    return data


def _one_bytes(e, case, total, log):
    name = case['extractor']
    table = dec_table(case['tables'][0])
    data = _file_bytes(name, table, total, case['variant'])
    store = devices.SimStore()
    store.files['f'] = data
    src = store.source('f')
    if name == 'fromcsv':
        view = [e.fromcsv(src), e.fromcsv(src, encoding='utf-8'),
                e.fromcsv(src, header=['p', 'q'], encoding='latin-1')][
                    case['variant']]
    elif name == 'fromtsv':
        view = e.fromtsv(src)
    elif name == 'frompickle':
        view = e.frompickle(src)
    elif name == 'fromtext':
        view = [e.fromtext(src), e.fromtext(src, strip=False),
                e.fromtext(src, strip=' ', header=['ln'])][case['variant']]
    else:
        view = e.fromjson(src, lines=True)
    if store.total('bytes_read') != 0 or store.total('open') != 0:
        raise _Bad('ctor-read-bytes', '%s: constructing the view opened/read '
                   'the source (%d opens, %d bytes)'
                   % (name, store.total('open'), store.total('bytes_read')))
    maxrow = max(len(line) for line in data[:4000].split(b'\n')) + 64
    cons = case['consumers']
    its, delivered, done, res = {}, {}, {}, {}

    def check(tid, d):
        b = store.total('bytes_read', tid)
        bound = (d + 2) * maxrow + 3 * 8192
        if b > bound:
            raise _Bad('bytes-exceed-bound',
                       '%s: consumer %s obtained %d data rows but %d bytes '
                       'were read (bound %d, file %d bytes)'
                       % (name, tid, d, b, bound, len(data)))
    for ti in case['order']:
        tid = 'c%d' % ti
        if tid not in its:
            with devices.as_task(tid):
                its[tid] = iter(view)
            delivered[tid], done[tid] = 0, False
        if done[tid]:
            continue
        with devices.as_task(tid):
            try:
                row = next(its[tid])
                delivered[tid] += 1
                log.add('row', tid, canon_row(row))
            except StopIteration:
                done[tid] = True
        check(tid, max(0, delivered[tid] - 1))
    for tid in its:
        res[tid] = max(0, delivered[tid] - 1)
    for ti, c in enumerate(cons):
        if c['kind'] == 'next':
            continue
        tid = 'c%d' % ti
        d = _run_consumer(e, view, c, tid, False)
        check(tid, max(d, _demand(c)))
        res[tid] = d
    by = dict((tid, store.total('bytes_read', tid)) for tid in res)
    for tid in sorted(res):
        log.add('bytes', tid, res[tid], by[tid])
    # close the abandoned iterators (their handles) before looking at leaks
    for it in its.values():
        if hasattr(it, 'close'):
            it.close()
    its = None
    gc.collect()
    exhausted = store.total('bytes_read') >= len(data)
    return res, by, exhausted, store.open_handles


def run_case(case):
    e = load_petl()
    log = Log()
    probes = {}
    label = case.get('extractor') or '+'.join(s[0] for s in case['stack'])
    sig = {'recipe': label}
    try:
        if case['mode'] == 'bytes':
            group = 'io'
            r1, b1, ex1, open1 = _one_bytes(e, case, case['L1'], log)
            r2, b2, ex2, open2 = _one_bytes(e, case, case['L2'], log)
            if ex1:
                return outcome('trivial', digest=log.hexdigest(),
                               nontrivial=False, extra={'group': group})
            if r1 != r2 or b1 != b2:
                raise _Bad('cost-depends-on-length',
                           '%s: rows/bytes for the same demands differ with '
                           'the file length: %d rows -> rows %r bytes %r; '
                           '%d rows -> rows %r bytes %r'
                           % (label, case['L1'], r1, b1, case['L2'], r2, b2))
            if open1 or open2:
                raise _Bad('handle-leak', '%s: %d handles still open after '
                           'the consumers finished' % (label, open1 + open2))
            probes['bytes:' + label] = 1
            nontrivial = any(v > 0 for v in r1.values())
            return outcome('ok', digest=log.hexdigest(), probes=probes,
                           nontrivial=nontrivial, steps=len(case['order']),
                           extra={'group': group})
        stack = case['stack']
        rec = RECIPES[stack[0][0]]
        group = rec.group
        kind, la = _lookahead(stack)
        with devices.TempSandbox() as sb:
            maxk = max([_demand(c) for c in case['consumers']] + [0])
            poison = maxk + (la or 0) + 3
            why = None
            try:
                res1, p1, ex1 = _one_length(e, case, case['L1'], log, sb,
                                            None)
            except _Bad:
                raise
            except PoisonedTail as ex:
                raise _Bad('poisoned-tail-reached', str(ex))
            except Exception as ex:
                why = type(not_a_harness_bug(ex)).__name__
            if why is not None:
                gc.collect()
                if kind == 'map':
                    # a request that ends in an exception (a value the
                    # operator rejects) is lazy too: on the long source the
                    # same request must not get anywhere near the tail
                    try:
                        _one_length(e, case, case['L2'], log, sb, poison)
                    except PoisonedTail as ex:
                        raise _Bad('poisoned-tail-reached',
                                   '%s: a request that raises %s on the '
                                   'short source: %s' % (label, why, ex))
                    except Exception:
                        pass
                    probes['raising-request-on-long-source'] = 1
                    gc.collect()
                return outcome('trivial', digest=log.hexdigest(),
                               nontrivial=False, probes=probes,
                               extra={'group': group, 'why': why})
            if kind is None:
                # non-streaming: only the construction clause applies
                probes['ctor-only:' + stack[0][0]] = 1
                return outcome('ok', digest=log.hexdigest(), probes=probes,
                               nontrivial=True, steps=len(case['order']),
                               extra={'group': group})
            try:
                res2, p2, ex2 = _one_length(e, case, case['L2'], log, sb,
                                            poison)
            except _Bad:
                raise
            except PoisonedTail as ex:
                raise _Bad('poisoned-tail-reached', label + ': ' + str(ex))
            except Exception as ex:
                if ex1:
                    # the short run scanned its source to the end without
                    # satisfying the consumers, so this one scans as well:
                    # what the operators meet on the way (a short row next
                    # to the end of the table under a context predicate)
                    # depends on the data, not on laziness
                    probes['short-source-exhausted'] = 1
                    return outcome('trivial', digest=log.hexdigest(),
                                   probes=probes, nontrivial=False,
                                   extra={'group': group})
                raise _Bad('raised-on-long-source',
                           '%s: %s: %s on the long source only'
                           % (label, type(ex).__name__, ex))
            if ex1:
                probes['short-source-exhausted'] = 1
                return outcome('trivial', digest=log.hexdigest(),
                               probes=probes, nontrivial=False,
                               extra={'group': group})
            if res1 != res2 or p1 != p2:
                raise _Bad('cost-depends-on-length',
                           '%s: rows obtained / data rows pulled for the '
                           'same demands differ with the source length: '
                           'L=%d -> %r pulls %r; L=%d -> %r pulls %r'
                           % (label, case['L1'], res1, p1, case['L2'], res2,
                              p2))
        probes['stream:' + stack[0][0]] = 1
        probes['kind:' + kind] = 1
        for c in case['consumers']:
            probes['consumer:' + c['kind']] = 1
        nontrivial = any(d > 0 for d, _ in res1.values())
        return outcome('ok', digest=log.hexdigest(), probes=probes,
                       nontrivial=nontrivial, steps=len(case['order']),
                       states=['%s:%s:%s' % (label, kind, ','.join(sorted(
                           c['kind'] for c in case['consumers'])))],
                       extra={'group': group})
    except _Bad as b:
        sig['vclass'] = b.vclass
        return outcome('violation', vclass=b.vclass, msg=label + ': ' + b.msg,
                       sig=sig, digest=log.hexdigest(),
                       extra={'group': 'x'})


def warmup():
    load_petl()


def shrink_candidates(case):
    import copy
    st = case.get('stack')
    if st and len(st) > 1:
        for i in range(len(st) - 1, 0, -1):
            c = copy.deepcopy(case)
            del c['stack'][i]
            yield c
    if len(case['consumers']) > 1:
        for i in range(len(case['consumers'])):
            c = copy.deepcopy(case)
            del c['consumers'][i]
            c['order'] = [j - (1 if j > i else 0) for j in case['order']
                          if j != i]
            yield c
    for i, cons in enumerate(case['consumers']):
        if cons['k'] > 1:
            c = copy.deepcopy(case)
            c['consumers'][i]['k'] = cons['k'] // 2
            if cons['kind'] == 'next':
                seen = 0
                order = []
                for j in case['order']:
                    if j == i:
                        seen += 1
                        if seen > c['consumers'][i]['k'] + 1:
                            continue
                    order.append(j)
                c['order'] = order
            yield c
        if cons['kind'] not in ('next', 'islice'):
            c = copy.deepcopy(case)
            c['consumers'][i]['kind'] = 'islice'
            yield c


def selfcheck(agg):
    if agg['truncated'] or agg['evaluations'] < 5000:
        return []
    missing = [n for n in STREAM_NAMES if 'stream:' + n not in agg['probes']]
    return ['streaming recipes never ran non-trivially: %s' % missing] \
        if missing else []


def evidence_extra(tier):
    return {'streaming_recipes': len(STREAM_NAMES),
            'construction_only_recipes': len(NONSTREAM_NAMES),
            'byte_extractors': BYTE_NAMES,
            'not_covered': 'facet, lookup*, counters (materialised objects); '
                           'for tail, transpose, recast, pivot, fromjson '
                           'without lines, sorts and merge joins only the '
                           'construction clause applies'}
