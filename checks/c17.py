"""C17 - database loads round-trip and are all-or-nothing when the source
fails.

Fault enumeration on real sqlite3 file databases: for every sampled scenario
(table, prior contents, history prefix) and every combination of load
function x handle kind x commit flag in the case, the source failure is
injected at EVERY row index (header, each data row, exhaustion) and as a
malformed row at every data row, each on a fresh database.  Oracle: a list
model of the committed table contents read through a fresh connection."""
import gc
import itertools
import os
import sqlite3

from sim import devices
from sim.canon import Log, dec_table, canon_rows
from sim.core import outcome, draw_config
from sim.devices import (SimTable, SimSourceError, SimSourceAbort, PipeFault,
                         SOURCE_ERROR_KINDS, INJECTED_SOURCE_FAILURES)
from sim.loader import load_petl

PROP = 'C17'
LEVEL = 'fault_enumeration'
RULE = ('case = scenario (table of 0..8 rows over int/float/str/None/bytes '
        'with quoted/reserved/permuted column names, prior committed '
        'contents, a history prefix (none | uncommitted append then caller '
        'commit | failed load then caller rollback), source given raw or '
        'through a petl pipeline) and a set of combinations of {todb, '
        'appenddb} x {file name, connection, cursor, cursor factory} x '
        'commit flag (quick: 3 sampled combinations, thorough: all 16). For '
        'each combination the failure is injected at every index 0..n+1 of '
        'the source and as a malformed row at every data row, plus the '
        'fault-free run, each on a fresh database file; after the call a '
        'fresh connection must see exactly the model contents; caller-side '
        'commit/rollback and a follow-up load are checked too. Non-trivial: '
        'n >= 1. Distinct: by digest of the scenario.')
STATES = ('load function x handle kind x commit flag x prefix x fault kind '
          '(none / raise at header / at a data row / at exhaustion / '
          'malformed row)')
COMPONENTS = {
    'real': ['petl todb/appenddb/fromdb (DB-API paths)', 'sqlite3 with file '
             'databases in a private directory, default (transactional) '
             'connections'],
    'stub': ['SimTable source that raises at a scheduled row'],
    'model': ['list of committed rows'],
}
ASSUMPTIONS = [
    'autocommit connections supplied by the caller are excluded (no library '
    'can make a load atomic on them); SQLAlchemy handles and create=True are '
    'not importable here',
    'tables are created by the harness without declared column types so that '
    'values round-trip unchanged',
    'after a failed call on a handle the caller owns, the caller rolls the '
    'connection back (the check verifies first that nothing was committed)',
]

HANDLES = ['name', 'conn', 'cursor', 'mkcurs', 'proxy', 'proxy-mkcurs']
COLSETS = [['a', 'b', 'c'], ['id', 'select', 'c d'], ['x'],
           ['Order', 'b', 'from', 'z'],
           # names that differ by surrounding white space only
           [' pad', 'pad', 'b '], ['x ', 'y']]
VALUES = [None, 0, 1, -7, 2.5, 'x', 'y z', "q'uote", '', b'\x00\x01', 10 ** 12,
          '2020-01-31', '2020-01-31 10:20:30', 'unknown']


def budget(tier):
    if tier == 'quick':
        return {'cases': 1600, 'wall_cap_s': 240}
    return {'cases': 12000, 'wall_cap_s': 1500}


def _gen_rows(rng, cols, n):
    from sim.canon import enc
    return [[enc(rng.choice(VALUES)) for _ in cols] for _ in range(n)]


def _gen_keyed(rng, tier, g):
    """Loads into a table with a PRIMARY KEY / UNIQUE column: a load whose
    keys collide (with the rows in the table, or among themselves) is a load
    that fails - IntegrityError, previous contents - and one whose keys do
    not collide round-trips as ever."""
    nprior = rng.randint(0, 3)
    loads = []
    for i in range(rng.randint(1, 3)):
        rows = [[rng.randint(1, 7), 'v%d-%d' % (i, j)]
                for j in range(rng.randint(0, 4))]
        op, handle = rng.choice(['todb', 'appenddb']), rng.choice(HANDLES)
        if rng.random() < 0.15:
            # (appenddb only: todb through such a factory deletes on one
            # connection and inserts on another, which no database allows)
            op, handle = 'appenddb', 'mkcurs-own'
        loads.append([op, handle, rows])
    return {'prop': PROP, 'machine': 'keyed',
            'constraint': rng.choice(['PRIMARY KEY', 'UNIQUE',
                                      'PRIMARY KEY']),
            'prior': [[k, 'p%d' % k] for k in range(1, nprior + 1)],
            'loads': loads, 'keep_exc': rng.random() < 0.3,
            'tname': rng.choice(['t', 't', '"t"']),
            'order': rng.choice(['kv', 'vk'])}


def gen_case(rng, tier, g):
    if rng.random() < 0.12:
        return _gen_keyed(rng, tier, g)
    case = _gen_case(rng, tier, g)
    case['fluent'] = rng.random() < 0.15
    # the host application's petl.config / logging set-up must not matter
    cfg = draw_config(rng, 0.12, exclude=('failonerror',))
    if cfg:
        case['config'] = cfg
    return case


def _gen_case(rng, tier, g):
    cols = rng.choice(COLSETS)
    n = rng.randint(0, 8 if tier == 'thorough' else 6)
    hdr = list(cols)
    if rng.random() < 0.3:
        rng.shuffle(hdr)           # load with the columns in another order
    if rng.random() < 0.15 and len(hdr) > 1:
        hdr = hdr[:-1]             # load a subset of the columns
    big = rng.random() < 0.03
    wide = (not big) and rng.random() < 0.02
    if big:
        # loads long enough to cross any internal batching boundary; the
        # failure indexes are then sampled around 1000 instead of enumerated
        n = rng.randint(1001, 2300)
    if wide:
        # loads heavy enough (text cells blown up to tens of kilobytes at
        # run time) to outgrow the page cache of the database connection, so
        # that uncommitted pages reach the file before the failure
        n = rng.randint(150, 220)
    table = [hdr] + _gen_rows(rng, hdr, n)
    if wide:
        for r in table[1:]:
            r[0] = 'w%d' % rng.randint(0, 9)
    other = [list(cols)] + _gen_rows(rng, cols, rng.randint(1, 3))
    prior = _gen_rows(rng, cols, rng.choice([0, 1, 2, 3]) if not wide
                      else 60)
    if wide:
        for r in prior:
            r[0] = 'p%d' % rng.randint(0, 9)
    all_combos = [(op, h, c) for op in ('todb', 'appenddb') for h in HANDLES
                  for c in (True, False)]
    if tier == 'thorough':
        combos = all_combos
    else:
        combos = rng.sample(all_combos, 3)
    return {'prop': PROP, 'cols': cols, 'table': table, 'other': other,
            'prior': prior, 'combos': [list(c) for c in combos],
            'prefix': rng.choice(['none', 'none', 'uncommitted-then-commit',
                                  'failed-then-rollback', 'pending-dml',
                                  'uncommitted-pending']),
            'pipeline': rng.random() < 0.3,
            'keep_exc': rng.random() < 0.3,
            'in_except': rng.random() < 0.2,
            'schema': rng.choice([None, None, 'main']),
            # identifier quoting: names with a space, reserved words
            'tname': rng.choice(['t', 't', 'my table', 'select', 'Order',
                                 'ta-b']),
            # exception classes the failing source raises, cycled over the
            # failure indexes (code that catches TypeError etc. for its own
            # purposes must not swallow a source failure)
            'exc_kinds': rng.sample(SOURCE_ERROR_KINDS,
                                    rng.choice([1, 2, 3])),
            'transient': rng.random() < 0.3,
            # declared column types (whatever is declared, what was written
            # comes back)
            'decltypes': rng.choice([None, None, ['DATE', 'TIMESTAMP', ''],
                                     ['', 'DATE'], ['TIMESTAMP']]),
            'todb_extra': rng.choice([None, None, None, {'drop': True},
                                      {'drop': True, 'create': False},
                                      {'constraints': False},
                                      {'sample': 1}, {'dialect': 'sqlite'}]),
            'read_via': rng.choice(['conn', 'name', 'mkcurs', 'cursor',
                                    'proxy-mkcurs', 'proxy-cursor']),
            'arraysize': rng.choice([None, 1, 2, 4, 50]),
            'attach': rng.random() < 0.3, 'big': big or wide, 'wide': wide,
            # where the rows come from: a simulated table, or another table
            # of the same database read with fromdb through the caller's own
            # connection (copying a table within one database)
            'source_kind': rng.choice(['sim', 'sim', 'sim', 'sim',
                                       'fromdb-same-conn'])}


class _Bad(Exception):
    def __init__(self, vclass, msg):
        Exception.__init__(self, msg)
        self.vclass = vclass
        self.msg = msg


def _read_view(view, what):
    """A complete pass over a fromdb view; reading what was written cannot
    fail."""
    try:
        return [tuple(r) for r in iter(view)]
    except Exception as ex:
        raise _Bad('fromdb-differs', '%s raised %s: %s'
                   % (what, type(ex).__name__, ex))


def _fresh_read(path, cols):
    conn = sqlite3.connect(path, timeout=0)
    try:
        cur = conn.execute('select %s from "%s" order by rowid' % (', '.join(
            '"%s"' % c for c in cols), _TNAME[0]))
        return [tuple(r) for r in cur.fetchall()]
    finally:
        conn.close()


def _setup(path, cols, prior):
    if os.path.exists(path):
        os.unlink(path)
    conn = sqlite3.connect(path)
    decl = _DECL[0] or []
    conn.execute('create table "%s" (%s)' % (
        _TNAME[0], ', '.join(('"%s" %s' % (c, decl[i % len(decl)])
                              if decl else '"%s"' % c)
                             for i, c in enumerate(cols))))
    conn.executemany('insert into "%s" values (%s)' % (
        _TNAME[0], ','.join('?' * len(cols))), prior)
    conn.commit()
    conn.close()


def _as_rows(cols, table):
    """Rows of `table` as they land in a table with columns `cols`."""
    hdr = table[0]
    out = []
    for r in table[1:]:
        d = dict(zip(hdr, r))
        out.append(tuple(d.get(c) for c in cols))
    return out


class _CursorProxy(object):
    """A delegating cursor wrapper of the kind petl's documentation shows for
    drivers that need one (todb docstring): every method is forwarded, but the
    wrapper is not iterable, so fromdb falls back on the fetch* methods."""

    def __init__(self, cursor, arraysize=None):
        self._cursor = cursor
        if arraysize is not None:
            cursor.arraysize = arraysize

    def execute(self, *a, **k):
        return self._cursor.execute(*a, **k)

    def executemany(self, sql, rows):
        return self._cursor.executemany(sql, rows)

    def fetchone(self):
        return self._cursor.fetchone()

    def fetchmany(self, *a, **k):
        return self._cursor.fetchmany(*a, **k)

    def fetchall(self):
        return self._cursor.fetchall()

    def close(self):
        return self._cursor.close()

    def __getattr__(self, name):
        return getattr(self._cursor, name)


def _mk_dbo(handle, path, caller):
    if handle == 'name':
        return path
    if handle == 'conn':
        return caller
    if handle == 'cursor':
        return caller.cursor()
    if handle == 'proxy':
        return _CursorProxy(caller.cursor())
    if handle == 'proxy-mkcurs':
        return lambda: _CursorProxy(caller.cursor())
    return lambda: caller.cursor()


_SCHEMA = [None]
_TNAME = ['t']


_FLUENT = [False]
_TODB_EXTRA = [None]
_DECL = [None]


def _load(e, op, src, dbo, commit):
    if _FLUENT[0]:
        from sim.loader import Fluent
        e = Fluent(e)
    kw = {}
    if _SCHEMA[0] is not None:
        kw['schema'] = _SCHEMA[0]
    if op == 'todb':
        # (arguments that only matter together with create=True)
        kw.update(_TODB_EXTRA[0] or {})
        e.todb(src, dbo, _TNAME[0], commit=commit, **kw)
    else:
        e.appenddb(src, dbo, _TNAME[0], commit=commit, **kw)


def _check(path, cols, model, what, pending=False):
    """`pending`: the caller's own transaction may still be open on another
    connection; if it has grown past the page cache the database file is
    locked until the caller commits or rolls back, which says nothing about
    petl."""
    try:
        got = _fresh_read(path, cols)
    except sqlite3.OperationalError as ex:
        if pending and 'locked' in str(ex):
            devices.CTX.fire('reader-blocked-by-open-transaction')
            return
        raise _Bad('fresh-connection-blocked',
                   '%s: a fresh connection cannot read the table: %s'
                   % (what, ex))
    except sqlite3.DatabaseError as ex:
        raise _Bad('database-damaged',
                   '%s: a fresh connection cannot read the table: %s: %s'
                   % (what, type(ex).__name__, ex))
    if canon_rows(got) != canon_rows(model):
        raise _Bad('wrong-contents',
                   '%s: a fresh connection sees %r, expected %r'
                   % (what, got, model))


def _safe_load(e, op, src, dbo, commit, what):
    try:
        _load(e, op, src, dbo, commit)
    except Exception as ex:
        raise _Bad('unexpected-exception', '%s raised %s: %s'
                   % (what, type(ex).__name__, ex))


def _one(e, case, path, op, handle, commit, fault, log):
    """One load under one fault plan on a fresh database.  Returns the
    number of faults that actually fired."""
    cols = case['cols']
    prior = [tuple(r) for r in dec_table(case['prior'])]
    table = dec_table(case['table'])
    other = dec_table(case['other'])
    if case.get('wide'):
        def blow(r):
            return [c * 12000 if isinstance(c, str) and c else c for c in r]
        prior = [tuple(blow(r)) for r in prior]
        table = [table[0]] + [blow(r) for r in table[1:]]
    attach = bool(case.get('attach')) and handle != 'name'
    tpath = path
    bystander = None
    if attach:
        # the target table lives in an attached database; a table of the
        # same name in the default schema must stay exactly as it is
        tpath = path + '.aux'
        bystander = [tuple(r) for r in reversed(prior)] + \
            _as_rows(cols, other)[:1]
        _setup(path, cols, bystander)
        _setup(tpath, cols, prior)
    else:
        _setup(path, cols, prior)
    model = list(prior)
    what = '%s(%s handle, commit=%r, fault=%r, prefix=%s%s)' % (
        op, handle, commit, fault, case['prefix'],
        ', schema=aux on an attached database' if attach else '')
    caller = None if handle == 'name' else sqlite3.connect(path)
    saved_schema = _SCHEMA[0]
    if attach:
        caller.execute('ATTACH DATABASE ? AS aux', (tpath,))
        _SCHEMA[0] = 'aux'
    fired = 0
    mine = False
    pending_rows = []
    try:
        # ---- history prefix (through the same kind of handle) ----------
        if case['prefix'] == 'uncommitted-then-commit' and caller is not None:
            _safe_load(e, 'appenddb', other, _mk_dbo(handle, path, caller),
                       False, what + ' [prefix]')
            _check(tpath, cols, model, what + ' [prefix: append commit=False]',
                   pending=True)
            caller.commit()
            model = model + _as_rows(cols, other)
            _check(tpath, cols, model, what + ' [prefix: caller commit]')
        elif case['prefix'] == 'pending-dml' and caller is not None:
            # the caller has work of its own pending on the connection when
            # it hands it to petl
            caller.execute('create table if not exists mine (x)')
            caller.execute('insert into mine values (1)')
            mine = True
        elif case['prefix'] == 'uncommitted-pending' and caller is not None:
            # an earlier load with commit=False is still pending on the
            # connection: its rows are part of the transaction the load
            # under test continues (and, with commit=True, commits)
            _safe_load(e, 'appenddb', other, _mk_dbo(handle, path, caller),
                       False, what + ' [prefix]')
            _check(tpath, cols, model, what + ' [prefix: append commit=False]',
                   pending=True)
            pending_rows = _as_rows(cols, other)
        elif case['prefix'] == 'failed-then-rollback':
            src0 = SimTable(other, mode='copy')
            src0.arm(len(other) - 1)
            try:
                _load(e, 'todb', src0, _mk_dbo(handle, path, caller)
                      if caller is not None else path, True)
                raise _Bad('fault-swallowed', what + ' [prefix]: the '
                           'injected source failure did not propagate')
            except SimSourceError:
                fired += 1
            except _Bad:
                raise
            except Exception as ex:
                raise _Bad('unexpected-exception', '%s [prefix] raised %s: '
                           '%s' % (what, type(ex).__name__, ex))
            _check(tpath, cols, model, what + ' [prefix: failed todb]',
                   pending=caller is not None)
            if caller is not None:
                caller.rollback()
        # a reader view on the file name, created and read before the load:
        # a view is a query, not a snapshot - it shows the rows written when
        # it is read again afterwards
        early = None
        if not pending_rows and not mine and not attach:
            early = e.fromdb(tpath, 'select %s from "%s" order by rowid'
                             % (', '.join('"%s"' % c for c in cols),
                                _TNAME[0]))
            got0 = _read_view(early, what + ' [fromdb before the load]')
            if canon_rows(got0) != canon_rows([tuple(cols)] + model):
                raise _Bad('fromdb-differs', '%s: fromdb before the load '
                           'returns %r, expected %r'
                           % (what, got0, [tuple(cols)] + model))
        # ---- the load under test ---------------------------------------
        rows = [list(r) for r in table]
        expect_exc = None
        if fault is not None and fault[0] == 'badrow':
            i = fault[1]
            rows[i] = rows[i] + ['surplus', 'cells']
            expect_exc = sqlite3.ProgrammingError
        src = SimTable(rows, mode='copy')
        from_db = case.get('source_kind') == 'fromdb-same-conn' and \
            caller is not None and not (fault and fault[0] == 'badrow') \
            and not pending_rows
        if from_db:
            # the rows sit in another table of the same database and are read
            # through the caller's own connection while it is being loaded
            thdr = rows[0]
            caller.execute('create table src (%s)' % ', '.join(
                '"%s"' % c for c in thdr))
            caller.executemany('insert into src values (%s)' % ','.join(
                '?' * len(thdr)), [list(r)[:len(thdr)] for r in rows[1:]])
            caller.commit()
            inner = e.fromdb(caller, 'select %s from src order by rowid'
                             % ', '.join('"%s"' % c for c in thdr))
            if fault is not None and fault[0] == 'raise':
                src = PipeFault(inner, fault[1], fault[2]
                                if len(fault) > 2 else 'plain')
                expect_exc = INJECTED_SOURCE_FAILURES
            else:
                src = PipeFault(inner)
        elif fault is not None and fault[0] == 'raise':
            src.arm(fault[1], kind=fault[2] if len(fault) > 2 else 'plain',
                    passes=1 if len(fault) > 3 else None)
            expect_exc = INJECTED_SOURCE_FAILURES
        source = e.convert(e.wrap(src), 0, lambda v: v) \
            if case['pipeline'] else src
        dbo = _mk_dbo(handle, path, caller)
        raised = None
        kept = []
        try:
            if case.get('in_except'):
                # the load is made from an except clause that is handling an
                # unrelated exception (the fallback table is written there):
                # what sys.exc_info() says is the caller's business
                try:
                    raise LookupError('unrelated, being handled by the caller')
                except LookupError:
                    _load(e, op, source, dbo, commit)
            else:
                _load(e, op, source, dbo, commit)
        except (Exception, SimSourceAbort) as ex:
            raised = type(ex)
            msg = str(ex)
            if case.get('keep_exc'):
                # the caller keeps the exception object (a list of errors, a
                # log record) while it goes on working with the database:
                # nothing it holds on to - frames, the objects in them -
                # may keep the failed load open
                kept.append(ex)
                probes_keep[0] = 1
        del dbo
        # the caller's except block is over: whatever the failed call left
        # suspended (e.g. the reading generator of the pipeline) is finalised
        # now, before anybody looks at the table
        source = src = None
        gc.collect()
        log.add('load', what, raised.__name__ if raised else None)
        if expect_exc is None and raised is not None:
            raise _Bad('unexpected-exception', '%s: raised %s: %s'
                       % (what, raised.__name__, msg))
        if expect_exc is not None:
            fired += 1
            if raised is None:
                raise _Bad('fault-swallowed', '%s: the failure did not '
                           'propagate to the caller' % what)
            if not issubclass(raised, expect_exc):
                raise _Bad('wrong-exception', '%s: raised %s (%s), expected '
                           '%s' % (what, raised.__name__, msg,
                                   getattr(expect_exc, '__name__',
                                           'the injected failure')))
        new = _as_rows(cols, table) if op == 'todb' \
            else model + pending_rows + _as_rows(cols, table)
        if mine and raised is None:
            # the caller's own pending work is still there (committed or
            # pending with the rest, never rolled back behind its back)
            got_mine = caller.execute('select x from mine').fetchall()
            if got_mine != [(1,)]:
                raise _Bad('caller-work-lost', '%s: the row the caller had '
                           'inserted into another table before the call is '
                           'gone: %r' % (what, got_mine))
        if raised is not None:
            # nothing is committed, whatever the commit flag
            _check(tpath, cols, model, what + ' [after the failed call]',
                   pending=caller is not None)
            if caller is not None:
                caller.rollback()
                _check(tpath, cols, model, what + ' [after caller rollback]')
        elif commit:
            model = new
            _check(tpath, cols, model, what + ' [after the call]')
            if early is not None:
                try:
                    got1 = [tuple(r) for r in iter(early)]
                except Exception as ex:
                    raise _Bad('fromdb-differs', '%s: a fromdb view on the '
                               'file name that was read before the load '
                               'raises %s afterwards: %s'
                               % (what, type(ex).__name__, ex))
                if canon_rows(got1) != canon_rows([tuple(cols)] + model):
                    raise _Bad('fromdb-differs', '%s: a fromdb view on the '
                               'file name that was read before the load '
                               'returns %r afterwards, the table holds %r'
                               % (what, got1, [tuple(cols)] + model))
            # and fromdb returns the same rows
            rd = sqlite3.connect(tpath)
            try:
                via = case.get('read_via', 'conn')
                rh = {'conn': rd, 'name': tpath,
                          'cursor': rd.cursor(),
                          'mkcurs': (lambda: rd.cursor()),
                          'proxy-mkcurs': (lambda: _CursorProxy(
                              rd.cursor(), case.get('arraysize'))),
                          'proxy-cursor': _CursorProxy(
                              rd.cursor(), case.get('arraysize'))}[via]
                view = e.fromdb(rh, 'select %s from "%s" order by rowid'
                                % (', '.join('"%s"' % c for c in cols),
                                   _TNAME[0]))
                got = _read_view(view, what + ' [fromdb after the load]')
                if via not in ('cursor', 'proxy-cursor'):
                    # a second pass returns the same rows
                    again = _read_view(view, what + ' [fromdb, second pass]')
                    if canon_rows(again) != canon_rows(got):
                        raise _Bad('fromdb-differs', '%s: second pass of '
                                   'fromdb returns %r, first %r'
                                   % (what, again, got))
                    # and so do two passes that overlap (the view is read
                    # while another iterator over it is part-way)
                    it1 = iter(view)
                    a = [tuple(r) for r in itertools.islice(it1, 2)]
                    b = [tuple(r) for r in iter(view)]
                    a += [tuple(r) for r in it1]
                    del it1
                    for x in (a, b):
                        if canon_rows(x) != canon_rows(got):
                            raise _Bad('fromdb-differs', '%s: overlapping '
                                       'passes of fromdb return %r and %r, '
                                       'a single pass %r' % (what, a, b, got))
                del view, rh
            finally:
                rd.close()
            if canon_rows(got) != canon_rows([tuple(cols)] + model):
                raise _Bad('fromdb-differs', '%s: fromdb returns %r, '
                           'expected %r' % (what, got,
                                            [tuple(cols)] + model))
        else:
            _check(tpath, cols, model, what + ' [after the call, commit=False]',
                   pending=caller is not None)
            if caller is not None:
                caller.commit()
                model = new
                _check(tpath, cols, model, what + ' [after caller commit]')
        # ---- follow-up load: nothing of a failed load may leak ----------
        _safe_load(e, 'appenddb', other, _mk_dbo(handle, path, caller)
                   if caller is not None else path, True,
                   what + ' [follow-up appenddb]')
        model = model + _as_rows(cols, other)
        _check(tpath, cols, model, what + ' [follow-up appenddb commit=True]')
        del kept[:]
        if bystander is not None:
            _check(path, cols, bystander, what + ' [the table of the same '
                   'name in the default schema]')
    finally:
        _SCHEMA[0] = saved_schema
        if caller is not None:
            caller.close()
    return fired


probes_keep = [0]


def _run_keyed(e, case, log):
    nloads = 0
    with devices.TempSandbox() as sb:
        path = os.path.join(sb.path, 'keyed.db')
        tname = case.get('tname', 't')
        qt = '"' + tname.replace('"', '""') + '"'
        c0 = sqlite3.connect(path)
        c0.execute('create table %s ("k" %s, "v")' % (qt, case['constraint']))
        c0.executemany('insert into %s values (?, ?)' % qt, case['prior'])
        if tname != 't':
            # the name begins and ends with a double quote character; a
            # table with the bare name sits next to it and stays as it is
            c0.execute('create table t ("k", "v")')
            c0.execute("insert into t values (99, 'sibling')")
        c0.commit()
        c0.close()
        model = [tuple(r) for r in case['prior']]
        for li, (op, handle, rows) in enumerate(case['loads']):
            what = 'table with "k" %s holding %r: %s(%r) through %s' % (
                case['constraint'], model, op, rows, handle)
            keys = [r[0] for r in rows]
            have = [] if op == 'todb' else [r[0] for r in model]
            collides = len(set(keys)) != len(keys) or \
                bool(set(keys) & set(have))
            hdr = ['k', 'v'] if case['order'] == 'kv' else ['v', 'k']
            table = [hdr] + [list(r) if case['order'] == 'kv'
                             else [r[1], r[0]] for r in rows]
            caller = None if handle in ('name', 'mkcurs-own') \
                else sqlite3.connect(path)
            if handle == 'mkcurs-own':
                # a cursor factory that hands out a cursor on a connection
                # of its own each time (a pool)
                dbo = (lambda: sqlite3.connect(path).cursor())
            else:
                dbo = _mk_dbo(handle, path, caller)
            raised, kept = None, []
            try:
                (e.todb if op == 'todb' else e.appenddb)(
                    table, dbo, tname, commit=True)
            except Exception as ex:
                raised = type(ex)
                msg = str(ex)
                if case.get('keep_exc'):
                    kept.append(ex)
            del dbo
            gc.collect()
            nloads += 1
            log.add('keyed-load', li, op, handle, collides,
                    raised.__name__ if raised else None)
            if caller is not None and raised is not None:
                caller.rollback()
            if collides:
                if raised is None:
                    new = None
                elif not issubclass(raised, sqlite3.IntegrityError):
                    raise _Bad('wrong-exception', '%s: raised %s (%s), the '
                               'keys collide: expected IntegrityError'
                               % (what, raised.__name__, msg))
                else:
                    new = model
            else:
                if raised is not None:
                    raise _Bad('unexpected-exception', '%s: raised %s: %s '
                               '(no key collides)' % (what, raised.__name__,
                                                      msg))
                new = (model if op == 'appenddb' else []) + \
                    [tuple(r) for r in rows]
            rd = sqlite3.connect(path, timeout=0.2)
            try:
                got = rd.execute('select k, v from %s' % qt).fetchall()
                if tname != 't':
                    sib = rd.execute('select k, v from t').fetchall()
                    if sib != [(99, 'sibling')]:
                        raise _Bad('other-table-changed', '%s (the table is '
                                   'called %s): the table called t next to '
                                   'it now holds %r' % (what, tname, sib))
            except sqlite3.OperationalError as ex:
                raise _Bad('fresh-connection-blocked', '%s: a fresh '
                           'connection cannot read the table afterwards: %s'
                           % (what, ex))
            finally:
                rd.close()
            if new is None:
                raise _Bad('collision-not-reported', '%s: the keys collide '
                           'but the load reported success; a fresh '
                           'connection sees %r' % (what, got))
            if sorted(got) != sorted(new):
                raise _Bad('wrong-contents', '%s: a fresh connection sees '
                           '%r, expected %r' % (what, got, new))
            model = new
            del kept[:]
            if caller is not None:
                caller.close()
            # (a connection that a cursor factory opened for itself and
            # abandoned in a failed load goes with the garbage)
            gc.collect()
    return nloads


def run_case(case):
    e = load_petl()
    log = Log()
    probes_keep[0] = 0
    if case.get('machine') == 'keyed':
        try:
            n = _run_keyed(e, case, log)
        except _Bad as b:
            return outcome('violation', vclass=b.vclass, msg=b.msg,
                           sig={'vclass': b.vclass, 'where': 'keyed'},
                           digest=log.hexdigest(), extra={'group': 'keyed'})
        return outcome('ok', digest=log.hexdigest(), steps=n,
                       probes={'keyed-table-loads': n}, nontrivial=n > 0,
                       states=['keyed:%s' % case['constraint']],
                       extra={'group': 'keyed'})
    n = len(case['table']) - 1
    kinds = case.get('exc_kinds') or ['plain']
    if case.get('wide'):
        idx = sorted(set([1, n // 2, n - 1, n, n + 1]))
        faults = [None] + [['raise', i, kinds[j % len(kinds)]]
                           for j, i in enumerate(idx)]
    elif case.get('big'):
        idx = sorted(set([0, 1, 999, 1000, 1001, 1002, n // 2, n, n + 1]))
        faults = [None] + [['raise', i, kinds[j % len(kinds)]]
                           for j, i in enumerate(idx) if i <= n + 1] + \
            [['badrow', i] for i in (1001, n) if i <= n]
    else:
        faults = [None] + [['raise', i, kinds[i % len(kinds)]]
                           for i in range(0, n + 2)] + \
            [['badrow', i] for i in range(1, n + 1)]
    nruns = 0
    _SCHEMA[0] = case.get('schema')
    _TNAME[0] = case.get('tname', 't')
    _FLUENT[0] = bool(case.get('fluent'))
    _TODB_EXTRA[0] = case.get('todb_extra')
    _DECL[0] = case.get('decltypes')
    # a failure that would not repeat (a busy database, a timeout): armed for
    # one pass over the source only - code that retries the load sees a
    # healthy source the second time
    if case.get('transient'):
        faults = [f_ + ['once'] if f_ and f_[0] == 'raise' and len(f_) == 3
                  else f_ for f_ in faults]
    fired = {'source-raise': 0, 'malformed-row': 0}
    try:
        with devices.TempSandbox() as sb:
            for op, handle, commit in case['combos']:
                for fault in faults:
                    # a fresh file name for every load: nothing an earlier
                    # load left behind (in the process, not on disk) may
                    # refer to this database
                    path = os.path.join(sb.path, 'db%d.sqlite' % nruns)
                    f = _one(e, case, path, op, handle, commit, fault, log)
                    for fn in os.listdir(sb.path):
                        try:
                            os.unlink(os.path.join(sb.path, fn))
                        except OSError:
                            pass
                    nruns += 1
                    if fault is not None:
                        fired['source-raise' if fault[0] == 'raise'
                              else 'malformed-row'] += 1
            gc.collect()
    except _Bad as b:
        return outcome('violation', vclass=b.vclass, msg=b.msg,
                       sig={'vclass': b.vclass, 'where': _where(b.msg)},
                       digest=log.hexdigest(), steps=nruns, fired=fired)
    probes = {'loads-under-fault-plans': nruns, 'prefix:' + case['prefix']: 1}
    if probes_keep[0]:
        probes['exception-kept-by-caller'] = 1
    for op, handle, commit in case['combos']:
        probes['combo:%s/%s/commit=%s' % (op, handle, commit)] = 1
    states = []
    for op, handle, commit in case['combos']:
        for fk in ('none', 'raise@header', 'raise@exhaustion') + (
                ('raise@row', 'badrow') if n >= 1 else ()):
            states.append('%s/%s/%s/%s/%s' % (op, handle, commit,
                                              case['prefix'], fk))
    return outcome('ok', digest=log.hexdigest(), steps=nruns, probes=probes,
                   fired=fired, nontrivial=n >= 1, states=states)


def _where(msg):
    # todb(name handle, commit=True, ...  -> 'todb/name/True'
    try:
        head = msg.split('(', 1)
        op = head[0]
        handle = head[1].split(' handle', 1)[0]
        commit = head[1].split('commit=', 1)[1].split(',', 1)[0]
        return '%s/%s/%s' % (op, handle, commit)
    except Exception:
        return '?'


def warmup():
    load_petl()


def shrink_candidates(case):
    import copy
    if case.get('machine') == 'keyed':
        for i in range(len(case['loads'])):
            if len(case['loads']) > 1:
                c = copy.deepcopy(case)
                del c['loads'][i]
                yield c
            for j in range(len(case['loads'][i][2])):
                c = copy.deepcopy(case)
                del c['loads'][i][2][j]
                yield c
        if case['prior']:
            c = copy.deepcopy(case)
            del c['prior'][-1]
            yield c
        return
    if len(case['combos']) > 1:
        for i in range(len(case['combos'])):
            c = copy.deepcopy(case)
            c['combos'] = [case['combos'][i]]
            yield c
    if len(case['table']) > 1:
        for i in range(1, len(case['table'])):
            c = copy.deepcopy(case)
            del c['table'][i]
            yield c
    if case['prior']:
        c = copy.deepcopy(case)
        c['prior'] = c['prior'][:-1]
        yield c
    for k, v in (('prefix', 'none'), ('pipeline', False), ('attach', False),
                 ('schema', None), ('source_kind', 'sim'), ('tname', 't')):
        if case.get(k, v) != v:
            c = copy.deepcopy(case)
            c[k] = v
            yield c


def selfcheck(agg):
    if agg['truncated'] or agg['evaluations'] < 200:
        return []
    want = ['combo:%s/%s/commit=%s' % (op, h, c) for op in ('todb', 'appenddb')
            for h in HANDLES for c in (True, False)]
    missing = [w for w in want if w not in agg['probes']]
    return ['combinations never ran: %s' % missing] if missing else []


def evidence_extra(tier):
    return {'exhaustive_within_case': 'every failure index 0..n+1 and every '
            'malformed-row position is enumerated for each combination in the '
            'case; thorough enumerates all 16 combinations of load function x '
            'handle kind x commit flag per scenario'}
